"""Writes MANIFEST.json from the table below (kept in one place so it stays valid)."""
import json
from pathlib import Path

NA = {
 "C01": "behaviour preservation of format_code is a pure function of (program, options): no schedule, clock, fault, history or interleaving for a simulator to own; needs program generation with an execution oracle (differential testing), a different family. History / layout dependence of the same function is claimed under C05 / C06.",
 "C02": "same as C01 per rule: a statement over all programs matching a rule's pattern; pure input -> output, nothing to schedule or fault.",
 "C04": "totality / termination over all input strings is a pure-input claim; pyrefact has no timers, retries or blocking I/O of its own (the one blocking call, input() run by constant evaluation, is reached by generating that input, not by a schedule or fault). Crashes met by the simulators are logged as observations only.",
 "C07": "the safe-mode surface is a function of one module's text (format_code(x, safe=True)); no I/O, history or ordering in the statement.",
 "C11": "layout stages are text -> text functions quantified over every input; generation / enumeration territory, nothing to simulate.",
 "C12": "matcher soundness / completeness against a declarative semantics is a bounded-enumeration / reference-matcher question (model checking family), no state or schedule.",
 "C13": "span / line / column geometry is a pure function of (pattern, source).",
 "C14": "the substitution result is a pure function of (pattern, replacement, source, count).",
 "C15": "literal_value(e) vs eval(e): exhaustive bounded enumeration of an expression grammar; no state or schedule (its process-dependence is covered by C06).",
 "C16": "reachability / side-effect analyses: enumerate statement shapes and execute under all valuations - enumeration, not simulation.",
 "C17": "logical equivalence over integer valuations: truth-table / SMT question; pure.",
 "C19": "renaming consistency is a function of one program's text and scopes.",
}

CHECKS = {
 "C10": dict(
  engine="e1_txn",
  technique="deterministic simulation of the rewrite scheduler: seeded synthetic rule scripts (yield order, transaction/group assignment) + injected faults (unparsable replacements, duplicates, self-overlaps, ignored targets) against the real processing.fix/chain, judged by a relational reference model; ddmin-minimised replay files",
  text="Seeded search (not exhaustive) over rewrite sets, transaction/group assignments, yield orders and fault sequences driven through the real scheduler, rewriter and rollback; every run is judged by an existential relational model of the statement (atomicity, no overlap, dropped-only-if with three-valued precedence, rollback justification, frame). Exploration is the right level: the quantifier is over unbounded finite rewrite sets and schedules, and the scheduler is the one component of pyrefact with transaction semantics, precedence and rollback.",
  note="Rules are synthetic (recorded yield scripts); markers/tokens are identifiers; whitespace-only replacements excluded; precedence between default-numbered transactions is treated as unspecified (any order that explains the drops is accepted). K1 (insertion anchored in front of a removed indented line) was repaired in /repo; a narrow rest (next line ignored and equally indented) is listed in KNOWN_FINDINGS.txt.",
  ref="DESIGN.md 4 (C10), 2.2 E1"),
 "C05": dict(
  engine="e2_history",
  technique="deterministic simulation of call histories: a long-lived interpreter executes seeded operation sequences (format_code, rules, pattern API, repeats, lazy iterators, eviction, aborts) under randomised cache-size knobs; each operation is compared with the same call in a pristine fork (reference model), every cache hit is checked against a fresh parse / compilation; ddmin-minimised op lists as replay files",
  text="Seeded search over call histories (plus one systematic sweep: every vendored example input through its own rule and format_code twice in a row, plain and with an ignore comment) in a long-lived process, judged operation by operation against a history-free reference (fresh fork of the same zygote, same knobs, same observing wrappers) and by cache-faithfulness invariants checked at every cache hit and at every rule exit. Exploration: histories are unbounded; what is sampled is which inputs, rules and distances meet.",
  note="Reference = same call in a fresh fork with identical knobs/wrappers; cache sizes are tuning knobs; aborted operations (injected BaseException at a seam) are not judged, only later ones. Input space limited to the vendored corpus (1031 example inputs of the repository), ignore-comment variants, joined snippets and a small module generator. Stale groupings of rule-private nodes are counted as observations, not violations.",
  ref="DESIGN.md 4 (C05), 2.2 E2"),
 "C06": dict(
  engine="e3_pool",
  technique="deterministic simulation of the worker pool: the real CLI over a generated tree with multiprocessing.Pool replaced by real forked workers parked at every file-system operation; a seeded scheduler decides chunk->worker assignment and the order of all reads / truncations / fragmented flushes / closes; every schedule is compared with the sequential run; explicit choice lists as replay files",
  text="Clause (b) (parallel == sequential for every worker count, file order and completion order) is decided by seeded search over schedules of the real CLI under SimPool against the sequential reference run (final bytes, per-pass change reports, return value, raised / not raised) plus always-on pass-protocol invariants. Clause (a) (hash seed / memory layout) is decided by E4 layout-sim once registered. Exploration: the schedule space is sampled, with a soundness argument (DESIGN 2.3) for serialising at file-system operations only.",
  note="Workers share nothing but the file system; SimPool follows CPython 3.12 pool.py; a reader of a file larger than one read chunk being cut short by a concurrent truncate is not modelled; runs whose sequential reference raises are compared on raised / not raised only.",
  ref="DESIGN.md 4 (C06), 2.2 E3/E4, 2.3"),
 "C03": dict(
  engine="e3_pool",
  technique="deterministic simulation with fault injection: unparsable replacements injected into the real rewrite scheduler (E1), a misbehaving stage injected into real pool workers so that only the write guard stands between broken text and the disk (E3, file-system seam records old/new bytes of every write), validity side invariant over seeded call histories (E2)",
  text="Decides the effect / recovery clauses of the statement: pass-level rollback under injected faults, the write guard (a valid file is never replaced by an invalid one) and the no-rewrite rule (a file whose formatted text equals its content is never opened for writing), observed at the file-system seam of the simulated pool. The universal clause over all input texts rides along as a sampled side invariant only.",
  note="The injected stage fault stands for 'a rule misbehaves'; crash-atomicity of the tool's own write (ENOSPC / kill) is not part of the statement and not demanded.",
  ref="DESIGN.md 4 (C03)"),
 "C09": dict(
  engine="e3_pool",
  technique="bounded-liveness check under deterministic simulation: the real CLI pass loop over real forked workers under seeded schedules, re-run on its own output until six applications (quiescence within the pass budget, no text comes back, per-folder bookkeeping), plus interleaved six-fold re-formatting chains inside one long-lived process compared with fresh-process references (E2)",
  text="Read as quiescence within N steps once inputs stop changing: after five applications a sixth must be a no-op and no earlier text may come back, through both implementations of the loop (format_code in a long-lived process; the CLI's MAX_MODULE_PASSES loop over pool workers with tasks migrating between warm workers). Exploration: inputs are sampled (the whole vendored corpus is swept in the chain batch), the protocol / warm-state dimension is what simulation adds.",
  note="CLI clause only on trees without import edges between formatted files (there a file's pass sequence is exactly x, f(x), ...). Input diversity bounded by corpus + generators. Known finding K7 (a chain of imports that guard each other loses one level per application; six levels exceed the budget) is listed in KNOWN_FINDINGS.txt and shown on every run by its pinned case in findings/C09/.",
  ref="DESIGN.md 4 (C09)"),
 "C20": dict(
  engine="e5_optout",
  technique="deterministic simulation + fault injection across the three places an opt-out must win: the rewrite scheduler under seeded conflicting / invalid transactions (E1), the file entry point under the simulated worker pool with file-system event monitor (E3: zero write events for skip_file files), the library / stdin entry points and the direct editing back-end under seeded edits (E5, stdin/stdout recording streams)",
  text="skip_file: byte-identical through format_code (drawn options), echoed by the stdin mode, and never opened for writing by any worker, pass or schedule of the simulated CLI. ignore: a transaction touching an ignored line is dropped whole and every ignored physical line is verbatim after any scheduler pass (incl. rollback, re-indentation, pass insertion); through the direct back-end and end to end the clause is sampled; the removal back-end's missing ignore test (former K2) was repaired in /repo, two findings stay listed (K2b: remove_nodes disturbs the line after an emptied ;-body, K3: the renaming back-end has no ignore test), attributed by call site so that any other violation is still reported.",
  note="stdin mode: the newline print() appends is framing. End-to-end lines are compared modulo trailing white space (trimming is whole-file layout normalisation). Known findings K2b/K3 in KNOWN_FINDINGS.txt.",
  ref="DESIGN.md 4 (C20)"),
 "C08": dict(
  engine="e3_pool",
  technique="deterministic simulation of the multi-party clause: real CLI with --preserve over generated library + client trees, SimPool with real forked workers under seeded schedules and up to five passes; oracle independent of the tool's own name collection (plain ast + importing every client in a fork); plus format_code(x, preserve=P) on seeded inputs",
  text="The cross-file clause is multi-party by nature (the tool reads client files, derives names, ships per-file preserve sets to pool workers, iterates passes in which one rule turns a method into a function and a later one deletes it); it is decided by seeded search over generated library/client pairs, access forms, CLI shapes and worker schedules. The within-file clause is sampled through format_code with drawn preserve sets. Exploration: program space is generator-bound; simulation adds schedule / pass / worker-history.",
  note="Methods are judged only if their class is referenced too; variables count as preserved when the name is still bound at module scope. Two genuine defects found this way were repaired (see KNOWN_FINDINGS fixed: lines).",
  ref="DESIGN.md 4 (C08)"),
 "C18": dict(
  engine="e3_pool",
  technique="deterministic simulation with the simulator owning the storage peer: generated package trees on a scratch disk in every layout of the statement, clients formatted by the real CLI under SimPool schedules (which worker, with which sys.modules / finder-cache history, handles which file; what it reads through tracing); oracle by executing original and final client text as two modules of one process and comparing object identity",
  text="Import normalisation consults the disk and the interpreter's import state, so it is not a function of the source string; the check builds the package tree, runs the real CLI over the clients sequentially and under seeded multi-worker schedules, and compares by execution which objects every function returns and every module variable holds before and after (identity, same process). Exploration over layouts x import forms x schedules x process histories (an earlier run over another project tree, E2 two-trees); known findings K4 (star import dropped while the name is also imported inside a function) and K6 (shadowed imports reordered) listed.",
  note="Shape (i) only (static libraries); guessed imports of previously undefined names are not generated; definitions are matched by position because the tool may rename them outside safe mode. Library layouts drawn per run since round 4: spelling of the export list (+=, append, extend, tuple, concatenation, annotated, empty), underscore names, relative re-exports inside packages with an optional top level decoy, a package directory next to a stale module of the same name, clients inside a package importing relatively, pairs of star imports. Four defects found that way were repaired in /repo; K4 / K6 stay listed and are shown on every run by their pinned cases in findings/C18/.",
  ref="DESIGN.md 4 (C18)"),
}

def main():
    checks = []
    for pid, c in CHECKS.items():
        checks.append({
            "property_id": pid,
            "quick_cmd": f"./vsim check {pid} --tier quick",
            "thorough_cmd": f"./vsim check {pid} --tier thorough",
            "evidence_file": f"evidence/{pid}.json",
            "replay_cmd_template": "./vsim replay {path}",
            "engine": c["engine"],
            "level_claimed": {"category": "exploration", "text": c["text"], "design_ref": c["ref"]},
            "level_note": c["note"],
            "technique": c["technique"],
        })
    na = dict(NA)
    for pid in ("C03", "C05", "C06", "C08", "C09", "C18", "C20"):
        if pid not in CHECKS:
            na[pid] = "planned (simulation target per DESIGN.md) but its check is not built yet in this commit; not claimed until it is"
    m = {
        "version": 1,
        "setup_cmd": "./vsim setup",
        "hooks": {
            "guard": "PYREFACT_VERIF",
            "enable": "no hook in /repo is needed: every seam is a module attribute patched from outside (pyrefact.main.mp / .open, tracing.Path, core.<cached function>, ast.AST.__hash__); checks import pyrefact from /repo's working tree (VERIF_REPO)",
            "baseline_off_cmd": "cd /repo && /venv/bin/python -m pytest -ra -q -p no:cacheprovider --timeout=900 --continue-on-collection-errors",
            "source_commits": [],
            "add_only": True,
        },
        "engines": [
            {"name": "e1_txn", "path": "sim/e1_txn.py", "serves_properties": ["C10", "C03", "C20"], "kind_free_text": "rewrite scheduler as a transactional system; synthetic rules, real scheduler; seeded yield orders and faults; relational model oracle"},
            {"name": "e2_history", "path": "sim/e2_history.py", "serves_properties": ["C05", "C09", "C03"], "kind_free_text": "long-lived interpreter vs fresh-fork reference; seeded call histories, cache-size knobs, aborts, abandoned iterators"},
            {"name": "e3_pool", "path": "sim/e3_pool.py", "serves_properties": ["C06", "C03", "C08", "C09", "C18", "C20"], "kind_free_text": "CLI over a scratch tree with multiprocessing.Pool replaced by real forked workers parked at every file-system operation and released by a seeded scheduler"},
            {"name": "e4_layout", "path": "sim/e4_layout.py", "serves_properties": ["C06"], "kind_free_text": "same call in differently laid-out interpreters (hash seed x heap shift x keyed ast node hash)"},
            {"name": "e5_optout", "path": "sim/e5_optout.py", "serves_properties": ["C20"], "kind_free_text": "opt-out comments at the library / stdin entry points and through the direct editing back-end; recording stdin/stdout streams"},
        ],
        "checks": checks,
        "not_applicable": [{"property_id": k, "reason": v} for k, v in sorted(na.items())],
        "notes": "Listed findings (KNOWN_FINDINGS.txt) have a stored case each under findings/<property>/ that every check of the property re-executes first (KNOWN-FINDING line when it still violates, NOTE when it does not); cases are written only in the maintenance mode VERIF_PIN_FINDINGS=1. Technique family: deterministic simulation with fault injection. ./vsim selftest proves determinism of every engine (same seeds, fresh interpreters, other hash seed and worker count). Exit codes: 0 held / known findings only, 1 VIOLATION, 2 harness error.",
    }
    Path(__file__).resolve().parent.parent.joinpath("MANIFEST.json").write_text(json.dumps(m, indent=1) + "\n")

if __name__ == "__main__":
    main()
