"""Writes MANIFEST.json from the table below (kept in one place so it stays valid)."""
import json
from pathlib import Path

NA = {
 "C01": "behaviour preservation of format_code is a pure function of (program, options): no schedule, clock, fault, history or interleaving for a simulator to own; needs program generation with an execution oracle (differential testing), a different family. History / layout dependence of the same function is claimed under C05 / C06.",
 "C02": "same as C01 per rule: a statement over all programs matching a rule's pattern; pure input -> output, nothing to schedule or fault.",
 "C04": "totality / termination over all input strings is a pure-input claim; pyrefact has no timers, retries or blocking I/O of its own (the one blocking call, input() run by constant evaluation, is reached by generating that input, not by a schedule or fault). Crashes met by the simulators are logged as observations only.",
 "C07": "the safe-mode surface is a function of one module's text (format_code(x, safe=True)); no I/O, history or ordering in the statement.",
 "C11": "layout stages are text -> text functions quantified over every input; generation / enumeration territory, nothing to simulate.",
 "C12": "matcher soundness / completeness against a declarative semantics is a bounded-enumeration / reference-matcher question (model checking family), no state or schedule.",
 "C13": "span / line / column geometry is a pure function of (pattern, source).",
 "C14": "the substitution result is a pure function of (pattern, replacement, source, count).",
 "C15": "literal_value(e) vs eval(e): exhaustive bounded enumeration of an expression grammar; no state or schedule (its process-dependence is covered by C06).",
 "C16": "reachability / side-effect analyses: enumerate statement shapes and execute under all valuations - enumeration, not simulation.",
 "C17": "logical equivalence over integer valuations: truth-table / SMT question; pure.",
 "C19": "renaming consistency is a function of one program's text and scopes.",
}

CHECKS = {
 "C10": dict(
  engine="e1_txn",
  technique="deterministic simulation of the rewrite scheduler: seeded synthetic rule scripts (yield order, transaction/group assignment) + injected faults (unparsable replacements, duplicates, self-overlaps, ignored targets) against the real processing.fix/chain, judged by a relational reference model; ddmin-minimised replay files",
  text="Seeded search (not exhaustive) over rewrite sets, transaction/group assignments, yield orders and fault sequences driven through the real scheduler, rewriter and rollback; every run is judged by an existential relational model of the statement (atomicity, no overlap, dropped-only-if with three-valued precedence, rollback justification, frame). Exploration is the right level: the quantifier is over unbounded finite rewrite sets and schedules, and the scheduler is the one component of pyrefact with transaction semantics, precedence and rollback.",
  note="Rules are synthetic (recorded yield scripts); markers/tokens are identifiers; whitespace-only replacements excluded; precedence between default-numbered transactions is treated as unspecified (any order that explains the drops is accepted). One known finding (K1, insertion anchored in front of a removed indented line) is listed in KNOWN_FINDINGS.txt.",
  ref="DESIGN.md 4 (C10), 2.2 E1"),
 "C05": dict(
  engine="e2_history",
  technique="deterministic simulation of call histories: a long-lived interpreter executes seeded operation sequences (format_code, rules, pattern API, repeats, lazy iterators, eviction, aborts) under randomised cache-size knobs; each operation is compared with the same call in a pristine fork (reference model), every cache hit is checked against a fresh parse / compilation; ddmin-minimised op lists as replay files",
  text="Seeded search over call histories (plus one systematic sweep: every vendored example input through its own rule and format_code twice in a row, plain and with an ignore comment) in a long-lived process, judged operation by operation against a history-free reference (fresh fork of the same zygote, same knobs, same observing wrappers) and by cache-faithfulness invariants checked at every cache hit and at every rule exit. Exploration: histories are unbounded; what is sampled is which inputs, rules and distances meet.",
  note="Reference = same call in a fresh fork with identical knobs/wrappers; cache sizes are tuning knobs; aborted operations (injected BaseException at a seam) are not judged, only later ones. Input space limited to the vendored corpus (1031 example inputs of the repository), ignore-comment variants, joined snippets and a small module generator. Stale groupings of rule-private nodes are counted as observations, not violations.",
  ref="DESIGN.md 4 (C05), 2.2 E2"),
}

def main():
    checks = []
    for pid, c in CHECKS.items():
        checks.append({
            "property_id": pid,
            "quick_cmd": f"./vsim check {pid} --tier quick",
            "thorough_cmd": f"./vsim check {pid} --tier thorough",
            "evidence_file": f"evidence/{pid}.json",
            "replay_cmd_template": "./vsim replay {path}",
            "engine": c["engine"],
            "level_claimed": {"category": "exploration", "text": c["text"], "design_ref": c["ref"]},
            "level_note": c["note"],
            "technique": c["technique"],
        })
    na = dict(NA)
    for pid in ("C03", "C05", "C06", "C08", "C09", "C18", "C20"):
        if pid not in CHECKS:
            na[pid] = "planned (simulation target per DESIGN.md) but its check is not built yet in this commit; not claimed until it is"
    m = {
        "version": 1,
        "setup_cmd": "./vsim setup",
        "hooks": {
            "guard": "PYREFACT_VERIF",
            "enable": "no hook in /repo is needed: every seam is a module attribute patched from outside (pyrefact.main.mp / .open, tracing.Path, core.<cached function>, ast.AST.__hash__); checks import pyrefact from /repo's working tree (VERIF_REPO)",
            "baseline_off_cmd": "cd /repo && /venv/bin/python -m pytest -ra -q -p no:cacheprovider --timeout=900 --continue-on-collection-errors",
            "source_commits": [],
            "add_only": True,
        },
        "engines": [
            {"name": "e1_txn", "path": "sim/e1_txn.py", "serves_properties": ["C10", "C03", "C20"], "kind_free_text": "rewrite scheduler as a transactional system; synthetic rules, real scheduler; seeded yield orders and faults; relational model oracle"},
            {"name": "e2_history", "path": "sim/e2_history.py", "serves_properties": ["C05", "C09", "C03"], "kind_free_text": "long-lived interpreter vs fresh-fork reference; seeded call histories, cache-size knobs, aborts, abandoned iterators"},
            {"name": "e3_pool", "path": "sim/e3_pool.py", "serves_properties": ["C06", "C03", "C08", "C09", "C18", "C20"], "kind_free_text": "CLI over a scratch tree with multiprocessing.Pool replaced by real forked workers parked at every file-system operation and released by a seeded scheduler"},
            {"name": "e4_layout", "path": "sim/e4_layout.py", "serves_properties": ["C06"], "kind_free_text": "same call in differently laid-out interpreters (hash seed x heap shift x keyed ast node hash)"},
        ],
        "checks": checks,
        "not_applicable": [{"property_id": k, "reason": v} for k, v in sorted(na.items())],
        "notes": "Technique family: deterministic simulation with fault injection. ./vsim selftest proves determinism of every engine (same seeds, fresh interpreters, other hash seed and worker count). Exit codes: 0 held / known findings only, 1 VIOLATION, 2 harness error.",
    }
    Path(__file__).resolve().parent.parent.joinpath("MANIFEST.json").write_text(json.dumps(m, indent=1) + "\n")

if __name__ == "__main__":
    main()
