#!/bin/bash
# Usage: tools/soak_quick.sh <first seed> <last seed>   - every quick check under other base seeds (unchanged tree must stay quiet)
cd "$(dirname "$0")/.."
for seed in $(seq "$1" "$2"); do
  for p in C10 C05 C06 C03 C09 C20 C08 C18; do
    out=$(VERIF_SEED=$seed VERIF_EVIDENCE_DIR=/dev/shm/vsim/soak-ev VERIF_OUT_DIR=/dev/shm/vsim/soak-out ./vsim check $p --tier quick 2>&1 | grep -v "^KNOWN-FINDING\|conda")
    echo "seed=$seed $(echo "$out" | tail -1)"
    echo "$out" | grep -A1 "^VIOLATION\|^HARNESS" | cut -c1-600
  done
done
