#!/bin/bash
# Usage: tools/run_mutant.sh <patch.diff> <property> [more ./vsim check args]
# Applies the patch to a scratch copy of /repo's HEAD (outside /repo and /verif), runs the
# check against it (VERIF_REPO), removes the copy.  Prints the check's tail and exit code.
set -u
patch="$(readlink -f "$1")"; prop="$2"; shift 2
here="$(cd "$(dirname "$0")/.." && pwd)"
tmp="/dev/shm/vsim/mut-$$"
mkdir -p "$tmp" && git -C /repo archive HEAD | tar -x -C "$tmp"
if ! (cd "$tmp" && git apply --whitespace=nowarn "$patch" 2>/dev/null || patch -s -p1 < "$patch"); then echo "PATCH-FAILED $patch"; rm -rf "$tmp"; exit 3; fi
( cd "$here" && VERIF_REPO="$tmp" VERIF_EVIDENCE_DIR="$tmp/evidence" VERIF_OUT_DIR="$tmp/out" ./vsim check "$prop" "$@" 2>&1 | grep -v "^KNOWN-FINDING" | tail -4 )
code=${PIPESTATUS[0]}
rm -rf "$tmp"
exit 0
