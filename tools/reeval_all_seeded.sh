#!/bin/bash
# Re-runs every seeded change against the current /repo HEAD and the current checks (sensitivity regression).
cd "$(dirname "$0")/.."
for d in seeded/*/; do
  name=$(basename "$d")
  prop=$(python3 -c "import json;print(json.load(open('$d/meta.json')).get('property',''))")
  [ -z "$prop" ] && continue
  echo "######## $name ($prop)"
  tools/eval_seeded.sh "$d" "$name" "$prop" 2>&1 | grep -v conda | grep "PATCH-FAILED\|^clean\|^tests\|^mutant\|== check\|tier=quick" | cut -c1-200
done
