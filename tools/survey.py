"""Survey: run N seeds of an engine (keep_going) and aggregate violation finding keys.
Usage: ./vsim-py tools/survey.py e2_history 200 '{"faults": false}'"""
import sys, os, json, collections, importlib, random
sys.path.insert(0, os.path.dirname(os.path.dirname(os.path.abspath(__file__))))
from sim import core as C

def one(task):
    mod = importlib.import_module("sim." + task["engine"])
    rng = random.Random(task["seed"])
    case = mod.generate(rng, task["kwargs"])
    case["seed"] = task["seed"]; case["keep_going"] = True
    r = mod.execute(case)
    return [(v["class"], v.get("finding_key"), v.get("detail", "")[:300]) for v in r.get("violations", [])]

if __name__ == "__main__":
    eng, n = sys.argv[1], int(sys.argv[2])
    kwargs = json.loads(sys.argv[3]) if len(sys.argv) > 3 else {}
    os.makedirs("/dev/shm/vsim/cwd", exist_ok=True); os.chdir("/dev/shm/vsim/cwd")
    C.import_pyrefact()
    tasks = [{"engine": eng, "seed": C.derive_seed(C.base_seed(), eng, "survey", i), "kwargs": kwargs} for i in range(n)]
    res = C.run_batch(one, tasks, timeout=900)
    agg = collections.Counter(); ex = {}
    herr = 0
    for st, r in res:
        if st != "ok": herr += 1; print("HARNESS", str(r)[:300]); continue
        for cls, key, detail in r:
            agg[(cls, key)] += 1; ex.setdefault((cls, key), detail)
    for (cls, key), c in agg.most_common():
        print(c, cls, key); print("     ", ex[(cls, key)][:300])
    print("harness errors", herr)
