"""All findings of the E2 sweep (keep_going), aggregated by finding key."""
import sys, os, json, collections, random
sys.path.insert(0, os.path.dirname(os.path.dirname(os.path.abspath(__file__))))
from sim import core as C, e2_history as E

def one(i):
    rng = random.Random(i)
    case = E.generate_sweep(rng, i, 192); case["keep_going"] = True
    if len(sys.argv) > 1: case["knobs"] = sys.argv[1]
    r = E.execute(case)
    return [(v["class"], v.get("finding_key"), v.get("detail", "")[:400]) for v in r.get("violations", [])]

if __name__ == "__main__":
    os.makedirs("/dev/shm/vsim/cwd", exist_ok=True); os.chdir("/dev/shm/vsim/cwd")
    C.import_pyrefact()
    res = C.run_batch(one, list(range(192)), timeout=1200)
    agg = collections.Counter(); ex = {}
    for st, r in res:
        if st != "ok": print("HARNESS", str(r)[:300]); continue
        for cls, key, detail in r:
            agg[(cls, key)] += 1; ex.setdefault((cls, key), detail)
    for (cls, key), c in agg.most_common():
        print(c, cls, key); print("     ", ex[(cls, key)])
