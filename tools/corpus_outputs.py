"""Regression aid for fix: commits.  Computes, for every corpus snippet, in a fresh
fork, the output of format_code (default and safe) and of every harvested rule,
for the tree in VERIF_REPO, and writes {snippet id: {entry: sha|error}} as JSON.
Usage: VERIF_REPO=<tree> ./vsim-py tools/corpus_outputs.py out.json ; then diff two files."""
import json, sys, os
sys.path.insert(0, os.path.dirname(os.path.dirname(os.path.abspath(__file__))))
from sim import core as C, rules

def one(sn):
    C.import_pyrefact()
    import pyrefact
    R = rules.harvest()
    res = {}
    def call(name, fn, *a, **k):
        try:
            res[name] = C.sha(fn(*a, **k))[:16]
        except BaseException as e:
            res[name] = f"{type(e).__name__}"
    src = sn["source"]
    call("format_code", pyrefact.format_code, src)
    call("format_code.safe", pyrefact.format_code, src, safe=True)
    for name, (fn, pres) in R.items():
        call(name, fn, src)
    return res

if __name__ == "__main__":
    os.makedirs("/dev/shm/vsim/cwd", exist_ok=True); os.chdir("/dev/shm/vsim/cwd")
    corpus = json.load(open(C.VERIF_DIR / "corpus" / "snippets.json"))
    C.import_pyrefact()
    results = C.run_batch(one, corpus, timeout=300)
    out = {}
    for sn, (st, r) in zip(corpus, results):
        out[sn["id"]] = r if st == "ok" else {"harness": str(r)[:100]}
    json.dump(out, open(sys.argv[1], "w"), indent=0, sort_keys=True)
    print(len(out), "snippets", sum(len(v) for v in out.values()), "outputs")
