#!/bin/bash
# Usage: tools/eval_seeded.sh <dir with patch.diff demo.py [README.md]> <name> <property> [more properties]
# Confirms the seeded change (pinned tests pass with it; demo PASSes without and FAILs with it), runs the quick
# checks of the given properties against a scratch copy with the change applied, and files everything under
# /verif/seeded/<name>/ with a meta.json.  The scratch copy lives outside /repo and /verif and is removed.
set -u
src="$(readlink -f "$1")"; name="$2"; shift 2; props=("$@")
here="$(cd "$(dirname "$0")/.." && pwd)"
tmp="/dev/shm/vsim/seed-$$"
rm -rf "$tmp"; mkdir -p "$tmp/tree" && git -C /repo archive HEAD | tar -x -C "$tmp/tree"
cd "$tmp/tree"
demo_clean=$(PYTHONPATH="$tmp/tree" timeout 600 /venv/bin/python "$src/demo.py" 2>&1 | tail -1; echo "rc=${PIPESTATUS[0]}")
if ! git apply --whitespace=nowarn "$src/patch.diff" 2>/dev/null; then patch -s -p1 < "$src/patch.diff" || { echo "PATCH-FAILED"; rm -rf "$tmp"; exit 3; }; fi
tests=$(PYTHONPATH="$tmp/tree" timeout 900 /venv/bin/python -m pytest -q -p no:cacheprovider --timeout=900 2>&1 | tail -1)
demo_mut=$(PYTHONPATH="$tmp/tree" timeout 600 /venv/bin/python "$src/demo.py" 2>&1 | tail -1; echo "rc=${PIPESTATUS[0]}")
echo "clean: $demo_clean" | tr '\n' ' '; echo; echo "tests: $tests"; echo "mutant: $demo_mut" | tr '\n' ' '; echo
declare -A verdict
for p in "${props[@]}"; do
  out=$(cd "$here" && VERIF_REPO="$tmp/tree" VERIF_EVIDENCE_DIR="$tmp/evidence" VERIF_OUT_DIR="$tmp/out" timeout 3000 ./vsim check "$p" --tier quick 2>&1 | grep -v "^KNOWN-FINDING\|conda" )
  if echo "$out" | grep -q "^VIOLATION property=$p"; then verdict[$p]="caught"; else verdict[$p]="missed"; fi
  echo "== check $p: ${verdict[$p]}"; echo "$out" | grep -A1 "^VIOLATION" | head -4 | cut -c1-400; echo "$out" | tail -1
done
mkdir -p "$here/seeded/$name"
cp "$src/patch.diff" "$src/demo.py" "$here/seeded/$name/"; [ -f "$src/README.md" ] && cp "$src/README.md" "$here/seeded/$name/"
python3 - "$here/seeded/$name/meta.json" "$name" "$demo_clean" "$tests" "$demo_mut" "$(for p in "${props[@]}"; do echo -n "$p=${verdict[$p]} "; done)" <<'PY'
import json, sys, os
path, name, clean, tests, mut, verdicts = sys.argv[1:7]
old = json.load(open(path)) if os.path.exists(path) else {}
old.update({
  "name": name,
  "confirmed": {"demo_on_unchanged_tree": clean.replace("\n", " "), "pinned_tests_with_change": tests, "demo_with_change": mut.replace("\n", " ")},
  "checks_run": dict(v.split("=") for v in verdicts.split()),
  "how_run": "tools/eval_seeded.sh: git archive HEAD of /repo to a scratch dir, git apply patch.diff, pytest, demo.py, then ./vsim check <property> --tier quick with VERIF_REPO=<scratch>",
})
json.dump(old, open(path, "w"), indent=1)
PY
rm -rf "$tmp"
