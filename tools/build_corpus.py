"""Vendor the repository's own example inputs: every multi-line string literal under
<repo>/tests/** that parses as Python after dedent.  Run once; output is committed."""
import ast, json, sys, textwrap, hashlib
from pathlib import Path
repo = Path(sys.argv[1] if len(sys.argv) > 1 else "/repo")
seen = {}
for path in sorted((repo / "tests").rglob("*.py")):
    try:
        tree = ast.parse(path.read_text())
    except SyntaxError:
        continue
    for node in ast.walk(tree):
        if isinstance(node, ast.Constant) and isinstance(node.value, str) and "\n" in node.value:
            text = node.value
            for cand in (text, textwrap.dedent(text)):
                try:
                    ast.parse(cand)
                except (SyntaxError, ValueError):
                    continue
                if cand.strip() and cand not in seen:
                    seen[cand] = str(path.relative_to(repo))
                break
out = [{"id": i, "origin": o, "source": s} for i, (s, o) in enumerate(seen.items())]
Path(__file__).resolve().parent.parent.joinpath("corpus", "snippets.json").write_text(json.dumps(out, indent=0))
print(len(out), "snippets")
