"""Which batches decide which property at which tier."""
from __future__ import annotations

from typing import Any, Dict, Optional

E1_RULE = (
    "E1 txn-sim: one run = one generated module (2-7 top-level statements, nesting <= 3, unique token per "
    "identifier, 0-3 ignore comments) + 1-3 synthetic rule groups yielding 0-6 transactions of 1-3 rewrites "
    "(node / range / multi-statement range / insertion targets; AST, text and deletion replacements; explicit, "
    "default and mixed transaction ids; seeded yield order) + seeded faults (unparsable replacement as text or "
    "AST, duplicate transaction in the same or a later group, duplicate rewrite inside a transaction, deleted "
    "expressions, multi-line replacements), driven through the real processing.fix/chain and judged by the "
    "relational model of DESIGN 4/C10. distinct = distinct conflict signatures (multiset of range relations "
    "between rewrites of different transactions {equal, nested, partial, adjacent, zero-width inside/at "
    "edge/shared} capped at 3 x fault kinds fired x group count); non-trivial = at least one conflict, fault "
    "or ignore comment in the run."
)


def plan_for(prop: str, tier: str) -> Optional[Dict[str, Any]]:
    q = tier == "quick"
    if prop == "C10":
        return {
            "rule": E1_RULE,
            "batches": [
                {"engine": "e1_txn", "label": "txn", "n": 30000 if q else 600000, "timeout": 120.0},
                {"engine": "e1_txn", "label": "txn-nofault", "n": 8000 if q else 100000, "kwargs": {"no_faults": True}, "timeout": 120.0},
            ],
            "probes": [
                "drop.self_overlap", "drop.ignored_line", "drop.duplicate", "drop.overlap_with_precedence",
                "fault.rollback_taken_poison", "yield_order_permutations", "txn.applied",
            ],
            "assumptions": [
                "synthetic rules stand in for real rules; the scheduler, rewriter and validity rollback are the real code",
                "markers and tokens are identifiers, never string literals (the string re-quoting post-pass is not part of the statement)",
                "whitespace-only replacements are excluded (their suppression is by design)",
            ],
        }
    return None


E2_RULE = (
    "E2 history-sim: one run = one long-lived interpreter (fork of the pristine zygote) executing a seeded history "
    "of 6-28 operations (format_code with drawn options, any rule reachable from format_code, the re-like pattern "
    "API with templates harvested from pyrefact's own sources, verbatim repeats at short distance, re-formatting of "
    "earlier outputs, eviction pressure, plain core.parse calls, lazily consumed / interleaved / abandoned finditer "
    "and find_replace generators) over 2-5 focus inputs (corpus snippets, ignore-comment variants, joined snippets, "
    "generated modules) under a drawn cache-size table {default, unbounded, small, tiny, mixed}; every judged "
    "operation is compared with the same call in a fresh fork of the zygote under the same knobs and wrappers (O1), "
    "every cache hit of core.parse / compile_template / _group_nodes_in_scope is checked against a fresh "
    "parse / compilation / walk (O2-O4), trees handed out during a rule are re-checked at rule exit, and "
    "sys.path / sys.stdout must be restored. distinct = distinct (rule or entry point, cache-state class in "
    "{cold, warm, warm-same-text, warm-after-abort}, knob table); non-trivial = the judged operation hit a parse-cache "
    "entry for a text that an earlier operation of the history had parsed."
)


def _e2_plan(prop, tier):
    q = tier == "quick"
    return {
        "rule": E2_RULE,
        "batches": [
            {"engine": "e2_history", "label": "sweep", "n": 192, "indexed": True, "kwargs": {"sweep": True, "light": q}, "timeout": 900.0},
            {"engine": "e2_history", "label": "hist", "n": 140 if q else 20000, "timeout": 600.0},
            {"engine": "e2_history", "label": "hist-faults", "n": 60 if q else 10000, "kwargs": {"faults": True}, "timeout": 600.0},
            {"engine": "e2_history", "label": "hist-generated", "n": 64 if q else 5000, "kwargs": {"generated": True}, "timeout": 600.0},
            {"engine": "e2_history", "label": "blocks", "n": 44 if q else 440, "indexed": True, "kwargs": {"blocks": True}, "timeout": 900.0},
            {"engine": "e2_history", "label": "two-trees", "n": 32 if q else 3000, "kwargs": {"trees": True}, "timeout": 600.0},
            {"engine": "e2_history", "label": "disk", "n": 32 if q else 3000, "kwargs": {"disk": True}, "timeout": 600.0},
        ],
        "probes": ["parse.hits", "template.hits", "group.hits", "judged_op_hit_entry_touched_before", "fault.abort_fired", "op.LAZY_STEP"],
        "assumptions": [
            "the reference is the same call in a pristine fork of the zygote with the same cache-size table and the same observing wrappers; subject and reference differ by history only",
            "cache sizes are treated as tuning knobs: the property must hold for every size",
            "aborts model an exception escaping a call (SimAbort, a BaseException); aborted operations are not judged, only later ones",
        ],
    }


_plan_for_e1 = plan_for


def plan_for(prop, tier):  # noqa: F811
    if prop == "C05":
        return _e2_plan(prop, tier)
    return _plan_for_e1(prop, tier)


E3_RULE = (
    "E3 pool-sim: one run = one generated project tree (2-8 modules in 1-3 folders built from corpus snippets, "
    "generated modules, exported definitions, optional import edges between the modules, twins, skip_file files, "
    "an optional unparsable file) formatted by the real CLI once sequentially (SimPool(1), reference) and then under "
    "several seeded schedules: n_cores in {1,2,3,4,5,8,16}, shuffled / duplicated / directory path arguments, seeded "
    "chunk->worker assignment, seeded order of every file-system operation of the real forked workers (uniform, "
    "PCT-style with pre-emptions, reader-chases-writer), flush granule in {4096, 8192, 65536}. distinct = distinct "
    "(tree, reads-from map) pairs, the reads-from map saying for every task which version of which other file each of "
    "its reads observed; non-trivial = a multi-worker schedule or a task with at least one cross-file read. "
    "E4 layout-sim (clause a): one run = one layout (PYTHONHASHSEED drawn from 2^30, heap shift n in {0..34} applied before "
    "`import ast`, keyed ast.AST.__hash__ or the native one) in a freshly exec'd interpreter with ASLR off, answering 14 drawn "
    "operations (format_code with drawn options on corpus inputs / variants / generated modules with process-dependent "
    "constant expressions: hash(), id(), str/list/tuple/join/next(iter()) over set displays; single rules on their own "
    "example inputs) resp. one slice of the whole corpus (sweep), each in a fresh fork, compared byte for byte with the "
    "canonical layout (0,0,0); distinct = (layout probe, operation) pairs; non-trivial = the layout's probe sets (names, "
    "AST types, fresh nodes) iterate in another order than in the canonical layout."
)


def _e3_plan(prop, tier):
    q = tier == "quick"
    base = {"engine": "e3_pool", "timeout": 900.0}
    if prop == "C06":
        return {
            "rule": E3_RULE,
            "batches": [
                dict(base, label="pool-base", n=64 if q else 6000, kwargs={"profile": "base", "schedules": 3 if q else 6}),
                dict(base, label="pool-edges", n=48 if q else 4000, kwargs={"profile": "edges", "schedules": 3 if q else 6}),
                {"engine": "e4_layout", "label": "layout", "n": 24 if q else 1500, "kwargs": {"ops": 14}, "timeout": 900.0},
                {"engine": "e4_layout", "label": "layout-sweep", "n": 32 if q else 256, "indexed": True, "kwargs": {}, "timeout": 1800.0},
            ],
            "probes": ["fs.READ", "schedules", "parent_writes", "fault.layout_permuted_set_of_names", "fault.layout_permuted_set_of_types", "fault.layout_permuted_set_of_nodes", "ops_with_constant_evaluation"],
            "assumptions": [
                "workers share nothing but the file system, so serialising at file-system operations explores all behaviours (DESIGN 2.3)",
                "SimPool follows CPython 3.12 pool.py for chunking, ordering and error propagation",
                "runs in which the sequential reference itself raises are compared on raised / not raised only",
            ],
        }
    if prop == "C09":
        return {
            "rule": E3_RULE + " Profile converge: trees without import edges; the CLI is re-run on its own output until six applications are reached. "
                    "E2 chains: every vendored example input (sweep; quick covers the slices the tier's index count reaches) and seeded inputs are formatted six times in a row on their own output inside "
                    "one long-lived process, chains interleaved, drawn options and cache knobs; f^5(x) == f^6(x), no text comes back, a fixed point is never left, and every application equals the same call in a fresh process. "
                    "For the chain batches distinct = (entry point, cache-state class, knob table), non-trivial = the judged application hit a parse-cache entry an earlier operation had touched.",
            "batches": [
                dict(base, label="pool-converge", n=48 if q else 4000, kwargs={"profile": "converge", "schedules": 2}),
                {"engine": "e2_history", "label": "chains-sweep", "n": 96 if q else 344, "indexed": True, "kwargs": {"chains": True}, "timeout": 1200.0},
                {"engine": "e2_history", "label": "chains", "n": 96 if q else 6000, "kwargs": {"chains": True}, "timeout": 900.0},
                {"engine": "e2_history", "label": "chains-blocks", "n": 48 if q else 480, "indexed": True, "kwargs": {"chains": True, "blocks": True}, "timeout": 900.0},
            ],
            "probes": ["converge.follow_up_runs", "converge.files_followed", "chains.checked", "chains.input_changed"],
            "assumptions": ["on trees without import edges between formatted files a file's pass sequence is exactly x, f(x), f(f(x)), ..."],
        }
    return None


_plan_prev = plan_for


def plan_for(prop, tier):  # noqa: F811
    return _e3_plan(prop, tier) or _plan_prev(prop, tier)


def _c20_plan(prop, tier):
    q = tier == "quick"
    return {
        "rule": (
            "C20: (a) E1 txn-sim runs (scheduler back-end: a transaction touching an ignored line is dropped whole, every "
            "ignored physical line verbatim after any pass incl. rollbacks and re-indentation); (b) E5: skip_file texts "
            "through format_code with drawn options and through the stdin mode with recording streams, ignore comments on "
            "drawn lines of corpus / generated inputs through format_code, and synthetic removals / replacements / "
            "additions / moves through the direct back-end alter_code; (c) E3 pool-sim profile optout: trees where up to "
            "half of the files carry skip_file, formatted by the real CLI under seeded schedules - zero write events, "
            "bytes unchanged, falsy task result. distinct = distinct (workload kind, input) pairs resp. conflict / "
            "reads-from signatures; non-trivial = the input was changed by the formatter (so a rule had a reason to fire), "
            "or an edit / transaction touches an ignored line."
        ),
        "batches": [
            {"engine": "e1_txn", "label": "txn", "n": 2500 if q else 200000, "timeout": 120.0},
            {"engine": "e5_optout", "label": "optout", "n": 1500 if q else 60000, "timeout": 300.0},
            {"engine": "e3_pool", "label": "pool-optout", "n": 40 if q else 3000, "kwargs": {"profile": "optout", "schedules": 2}, "timeout": 900.0},
            {"engine": "e2_history", "label": "ignore-history", "n": 64 if q else 4000, "kwargs": {"ignore_history": True}, "timeout": 600.0},
        ],
        "probes": ["drop.ignored_line", "ignored_lines_checked", "skip.stdin_checked", "fault.edit_touches_ignored_line", "optout.skip_files_checked", "ignore.inputs_that_changed"],
        "assumptions": [
            "stdin mode: the single newline that print() appends to every answer is framing, not a rewrite",
            "the end-to-end ignore clause is sampled over the vendored corpus and generators (it depends on which rules a text triggers)",
        ],
    }


_plan_prev2 = plan_for


def plan_for(prop, tier):  # noqa: F811
    if prop == "C20":
        return _c20_plan(prop, tier)
    return _plan_prev2(prop, tier)


def _c03_plan(prop, tier):
    q = tier == "quick"
    return {
        "rule": (
            "C03: (a) E1 txn-sim with injected unparsable replacements: the text returned by fix / chain always parses and a "
            "poisoned pass returns its input; (b) E3 pool-sim profile stagefault: inside every worker one late stage of "
            "format_code (sort_imports, fix_line_lengths, remove_unused_imports or simplify_assign_immediate_return, drawn) "
            "returns its result with an unbalanced bracket appended on drawn calls, so format_code itself returns broken text "
            "and the write guard is the only thing between it and the disk; at every write (old bytes, new bytes) are "
            "recorded by the file-system seam: valid old => valid new (judged on the bytes, so PEP 263 cookies and BOMs "
            "count; one tree in ten holds a valid cp1252 file), and new != old; (c) the same monitor on fault-free "
            "E3 runs; (d) E2 histories over corpus and generated modules: every text returned by format_code, a rule or "
            "sub/subn for a parsable input parses; (e) E5 direct back-end: alter_code with replacements only, 30 % of the "
            "expression replacements unparsable by construction - the back-end's own rollback must return parsable text. "
            "distinct = union of the engines' signatures; non-trivial as defined per engine (conflict / fault present, "
            "multi-worker or cross-read schedule, warm cache entry hit)."
        ),
        "batches": [
            {"engine": "e1_txn", "label": "txn", "n": 2500 if q else 150000, "timeout": 120.0},
            {"engine": "e3_pool", "label": "pool-stagefault", "n": 60 if q else 4000, "kwargs": {"profile": "stagefault", "schedules": 2}, "timeout": 900.0},
            {"engine": "e3_pool", "label": "pool-base", "n": 30 if q else 2000, "kwargs": {"profile": "base", "schedules": 2}, "timeout": 900.0},
            {"engine": "e2_history", "label": "hist", "n": 80 if q else 8000, "timeout": 600.0},
            {"engine": "e2_history", "label": "hist-generated", "n": 48 if q else 4000, "kwargs": {"generated": True}, "timeout": 600.0},
            {"engine": "e2_history", "label": "blocks", "n": 44 if q else 440, "indexed": True, "kwargs": {"blocks": True}, "timeout": 900.0},
            {"engine": "e5_optout", "label": "direct-backend", "n": 1200 if q else 60000, "kwargs": {"kind": "direct"}, "timeout": 300.0},
        ],
        "probes": ["fault.rollback_taken_poison", "guard.writes_checked", "fault.poison_replacement_direct_backend", "direct.replacement_only_calls_validity_checked", "fault.stage_fault_suppressed_by_guard", "O5.valid_in_checked", "guard.original_invalid_written"],
        "assumptions": [
            "the universal claim over all input texts is only sampled (corpus + generators); what is decided by simulation are the effect / recovery clauses: pass rollback under faults, the write guard, the no-rewrite rule",
            "the injected stage fault stands for 'a rule misbehaves'; the text format_code returns under it is broken by construction and not judged",
        ],
    }


_plan_prev3 = plan_for


def plan_for(prop, tier):  # noqa: F811
    if prop == "C03":
        return _c03_plan(prop, tier)
    return _plan_prev3(prop, tier)


def _c08_plan(prop, tier):
    q = tier == "quick"
    return {
        "rule": (
            "C08: E3 pool-sim profile preserve: one run = generated library modules (functions in snake / Camel / mixedCase / "
            "_private style, duplicates, classes with self-using, self-less, static and class methods, class and module "
            "variables; partly used internally, partly unused) plus 1-3 client modules passed with --preserve that reference "
            "a drawn subset by from-import (plain, aliased, import-only), module attribute (plain / aliased module) and "
            "attribute chains (Class.method); formatted by the real CLI (libraries only, whole tree with clients preserved, "
            "or `pkg --preserve pkg`) sequentially and under seeded multi-worker schedules, up to five passes. Oracle "
            "independent of pyrefact's own name collection: every definition the preserved files reference exists with the "
            "same kind at the same place in the final tree, and every client that imported against the original tree imports "
            "against the final one (fork). E5 kind preserve: format_code(x, preserve=P) on corpus inputs and generated "
            "libraries keeps every top-level definition (and member of a preserved class) named in P. distinct = (tree, "
            "reads-from map) resp. (input, preserve set); non-trivial = multi-worker / cross-read schedule resp. the input "
            "was changed by the formatter."
        ),
        "batches": [
            {"engine": "e3_pool", "label": "pool-preserve", "n": 180 if q else 6000, "kwargs": {"profile": "preserve", "schedules": 2}, "timeout": 900.0},
            {"engine": "e5_optout", "label": "preserve-within-file", "n": 1500 if q else 40000, "kwargs": {"kind": "preserve"}, "timeout": 300.0},
        ],
        "probes": ["preserve.referenced_definitions_checked", "preserve.clients_imported", "preserve.kind.method", "preserve.kind.variable", "preserve.definitions_checked"],
        "assumptions": [
            "methods are judged only when their class is referenced by the preserved files too (a class nobody names may be deleted as a whole)",
            "which deleting / renaming rule fires depends on the generator; the family adds the schedule / pass / worker-history dimension",
        ],
    }


def _c18_plan(prop, tier):
    q = tier == "quick"
    return {
        "rule": (
            "C18: E3 pool-sim profile imports: one run = a static library tree on disk in all layouts of the statement (plain "
            "module, module defining __all__, package with __init__ re-exporting from a submodule by relative import, "
            "re-export chain of depth 3 with an alias on the way, star re-export hub) plus 1-4 client modules importing drawn "
            "objects in every statement form (from, from-as, import, import-as, star, duplicated, stacked with stdlib modules, "
            "inside a function, stdlib imports) in shuffled order; only the clients are formatted, by the real CLI "
            "sequentially and under seeded multi-worker schedules (safe mode in 30 % of the runs). Oracle by execution in a "
            "fork: original and final text of each client are executed as two modules of one process (imported objects are "
            "shared, identity is literal); the objects its functions return and its module level variables hold must be the "
            "very same objects, definitions matched by position; libraries not passed to the tool must be unchanged. In a "
            "third of the runs the same process first formats another project directory whose modules have the same names "
            "but another layout. E2 two-trees: histories of format_code / import rules over clients of two static project "
            "trees with equal module names and swapped define / re-export roles inside one long-lived process, each "
            "operation compared with a fresh fork in the same tree (nothing of an earlier tree may leak). "
            "distinct = (tree, reads-from map); non-trivial = a task with a cross-file read (tracing opened an imported "
            "module) or a multi-worker schedule."
        ),
        "batches": [
            {"engine": "e3_pool", "label": "pool-imports", "n": 280 if q else 8000, "kwargs": {"profile": "imports", "schedules": 2}, "timeout": 900.0},
            {"engine": "e2_history", "label": "two-trees", "n": 96 if q else 6000, "kwargs": {"trees": True}, "timeout": 600.0},
            {"engine": "e2_history", "label": "disk", "n": 48 if q else 3000, "kwargs": {"disk": True}, "timeout": 600.0},
        ],
        "probes": ["imports.clients_checked", "imports.clients_changed", "imports.import_statements_changed"],
        "assumptions": [
            "shape (i) of DESIGN 4/C18 only: libraries are static; generated objects are unique per definition site so a mis-resolved re-export is visible",
            "coverage of import forms is generator-bound; what simulation adds is the layout x schedule x worker-history product",
        ],
    }


_plan_prev4 = plan_for


def plan_for(prop, tier):  # noqa: F811
    if prop == "C08":
        return _c08_plan(prop, tier)
    if prop == "C18":
        return _c18_plan(prop, tier)
    return _plan_prev4(prop, tier)
