"""Which batches decide which property at which tier."""
from __future__ import annotations

from typing import Any, Dict, Optional

E1_RULE = (
    "E1 txn-sim: one run = one generated module (2-7 top-level statements, nesting <= 3, unique token per "
    "identifier, 0-3 ignore comments) + 1-3 synthetic rule groups yielding 0-6 transactions of 1-3 rewrites "
    "(node / range / multi-statement range / insertion targets; AST, text and deletion replacements; explicit, "
    "default and mixed transaction ids; seeded yield order) + seeded faults (unparsable replacement as text or "
    "AST, duplicate transaction in the same or a later group, duplicate rewrite inside a transaction, deleted "
    "expressions, multi-line replacements), driven through the real processing.fix/chain and judged by the "
    "relational model of DESIGN 4/C10. distinct = distinct conflict signatures (multiset of range relations "
    "between rewrites of different transactions {equal, nested, partial, adjacent, zero-width inside/at "
    "edge/shared} capped at 3 x fault kinds fired x group count); non-trivial = at least one conflict, fault "
    "or ignore comment in the run."
)


def plan_for(prop: str, tier: str) -> Optional[Dict[str, Any]]:
    q = tier == "quick"
    if prop == "C10":
        return {
            "rule": E1_RULE,
            "batches": [
                {"engine": "e1_txn", "label": "txn", "n": 4000 if q else 400000, "timeout": 120.0},
                {"engine": "e1_txn", "label": "txn-nofault", "n": 1000 if q else 60000, "kwargs": {"no_faults": True}, "timeout": 120.0},
            ],
            "probes": [
                "drop.self_overlap", "drop.ignored_line", "drop.duplicate", "drop.overlap_with_precedence",
                "fault.rollback_taken_poison", "yield_order_permutations", "txn.applied",
            ],
            "assumptions": [
                "synthetic rules stand in for real rules; the scheduler, rewriter and validity rollback are the real code",
                "markers and tokens are identifiers, never string literals (the string re-quoting post-pass is not part of the statement)",
                "whitespace-only replacements are excluded (their suppression is by design)",
            ],
        }
    return None


E2_RULE = (
    "E2 history-sim: one run = one long-lived interpreter (fork of the pristine zygote) executing a seeded history "
    "of 6-28 operations (format_code with drawn options, any rule reachable from format_code, the re-like pattern "
    "API with templates harvested from pyrefact's own sources, verbatim repeats at short distance, re-formatting of "
    "earlier outputs, eviction pressure, plain core.parse calls, lazily consumed / interleaved / abandoned finditer "
    "and find_replace generators) over 2-5 focus inputs (corpus snippets, ignore-comment variants, joined snippets, "
    "generated modules) under a drawn cache-size table {default, unbounded, small, tiny, mixed}; every judged "
    "operation is compared with the same call in a fresh fork of the zygote under the same knobs and wrappers (O1), "
    "every cache hit of core.parse / compile_template / _group_nodes_in_scope is checked against a fresh "
    "parse / compilation / walk (O2-O4), trees handed out during a rule are re-checked at rule exit, and "
    "sys.path / sys.stdout must be restored. distinct = distinct (rule or entry point, cache-state class in "
    "{cold, warm, warm-same-text, warm-after-abort}, knob table); non-trivial = the judged operation hit a parse-cache "
    "entry for a text that an earlier operation of the history had parsed."
)


def _e2_plan(prop, tier):
    q = tier == "quick"
    return {
        "rule": E2_RULE,
        "batches": [
            {"engine": "e2_history", "label": "sweep", "n": 128, "indexed": True, "kwargs": {"sweep": True}, "timeout": 900.0},
            {"engine": "e2_history", "label": "hist", "n": 400 if q else 20000, "timeout": 600.0},
            {"engine": "e2_history", "label": "hist-faults", "n": 200 if q else 10000, "kwargs": {"faults": True}, "timeout": 600.0},
        ],
        "probes": ["parse.hits", "template.hits", "group.hits", "judged_op_hit_entry_touched_before", "fault.abort_fired", "op.LAZY_STEP"],
        "assumptions": [
            "the reference is the same call in a pristine fork of the zygote with the same cache-size table and the same observing wrappers; subject and reference differ by history only",
            "cache sizes are treated as tuning knobs: the property must hold for every size",
            "aborts model an exception escaping a call (SimAbort, a BaseException); aborted operations are not judged, only later ones",
        ],
    }


_plan_for_e1 = plan_for


def plan_for(prop, tier):  # noqa: F811
    if prop == "C05":
        return _e2_plan(prop, tier)
    return _plan_for_e1(prop, tier)
