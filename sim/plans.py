"""Which batches decide which property at which tier."""
from __future__ import annotations

from typing import Any, Dict, Optional

E1_RULE = (
    "E1 txn-sim: one run = one generated module (2-7 top-level statements, nesting <= 3, unique token per "
    "identifier, 0-3 ignore comments) + 1-3 synthetic rule groups yielding 0-6 transactions of 1-3 rewrites "
    "(node / range / multi-statement range / insertion targets; AST, text and deletion replacements; explicit, "
    "default and mixed transaction ids; seeded yield order) + seeded faults (unparsable replacement as text or "
    "AST, duplicate transaction in the same or a later group, duplicate rewrite inside a transaction, deleted "
    "expressions, multi-line replacements), driven through the real processing.fix/chain and judged by the "
    "relational model of DESIGN 4/C10. distinct = distinct conflict signatures (multiset of range relations "
    "between rewrites of different transactions {equal, nested, partial, adjacent, zero-width inside/at "
    "edge/shared} capped at 3 x fault kinds fired x group count); non-trivial = at least one conflict, fault "
    "or ignore comment in the run."
)


def plan_for(prop: str, tier: str) -> Optional[Dict[str, Any]]:
    q = tier == "quick"
    if prop == "C10":
        return {
            "rule": E1_RULE,
            "batches": [
                {"engine": "e1_txn", "label": "txn", "n": 4000 if q else 400000, "timeout": 120.0},
                {"engine": "e1_txn", "label": "txn-nofault", "n": 1000 if q else 60000, "kwargs": {"no_faults": True}, "timeout": 120.0},
            ],
            "probes": [
                "drop.self_overlap", "drop.ignored_line", "drop.duplicate", "drop.overlap_with_precedence",
                "fault.rollback_taken_poison", "yield_order_permutations", "txn.applied",
            ],
            "assumptions": [
                "synthetic rules stand in for real rules; the scheduler, rewriter and validity rollback are the real code",
                "markers and tokens are identifiers, never string literals (the string re-quoting post-pass is not part of the statement)",
                "whitespace-only replacements are excluded (their suppression is by design)",
            ],
        }
    return None
