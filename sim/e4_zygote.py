"""Layout zygote for E4.  Executed as a script (NOT imported through the sim
package: nothing may be imported before the layout is prepared):

    PYTHONHASHSEED=<h> setarch -R python e4_zygote.py <heap_shift n> <node_hash_key K> <repo> <cwd>

Prepares the layout (n, K), imports pyrefact, then answers JSON-line requests on
stdin, each computed in a fresh fork (so answers carry no history).
"""
import os
import sys

_n = int(sys.argv[1])
_K = int(sys.argv[2])
_repo = sys.argv[3]
_cwd = sys.argv[4]
_verif = os.path.dirname(os.path.dirname(os.path.abspath(__file__)))

# heap shift BEFORE `import ast`: moves every later allocation, which permutes the
# iteration order of sets of type objects / nodes (hashed by address)
_pad = bytearray(977 * _n)
_dummies = [type("LayoutDummy%d" % i, (), {}) for i in range(13 * _n)]

import ast  # noqa: E402

if _K:
    _MASK = (1 << 61) - 1

    def _keyed_hash(self, _k=_K):
        # keyed bijection-ish mix of the address: stable for the object's life, no side table
        x = (id(self) ^ _k) & 0xFFFFFFFFFFFFFFFF
        x = (x * 0x9E3779B97F4A7C15) & 0xFFFFFFFFFFFFFFFF
        x ^= x >> 29
        x = (x * 0xBF58476D1CE4E5B9) & 0xFFFFFFFFFFFFFFFF
        x ^= x >> 32
        return x & _MASK

    ast.AST.__hash__ = _keyed_hash

import io  # noqa: E402
import json  # noqa: E402
import logging  # noqa: E402
import hashlib  # noqa: E402

sys.path.insert(0, _repo)
os.chdir(_cwd)
import pyrefact  # noqa: E402
import pyrefact.main  # noqa: E402,F401
from pyrefact import core as pcore, logs  # noqa: E402

logs.set_level(100)
logging.disable(logging.CRITICAL)


def probe():
    names = {"alpha", "beta", "gamma", "delta", "epsilon", "zeta", "eta", "theta"}
    types_ = {ast.If, ast.For, ast.While, ast.With, ast.Try, ast.FunctionDef, ast.ClassDef, ast.Assign, ast.Return}
    tree = ast.parse("a = 1\nb = 2\nc = 3\nd = 4\ne = 5\nf = 6\ng = 7\nh = 8\n")
    nodes = set(tree.body)
    return {
        "names": "".join(n[0] for n in names),
        "types": ",".join(t.__name__ for t in types_),
        "nodes": "".join(n.targets[0].id for n in nodes),
    }


def run_op(op):
    trace = []
    depth = [0]
    real_lv = pcore.literal_value

    def literal_value(node):
        depth[0] += 1
        try:
            val = real_lv(node)
            if depth[0] == 1 and len(trace) < 400:
                try:
                    trace.append([ast.unparse(node)[:200], repr(val)[:200]])
                except Exception:
                    pass
            return val
        finally:
            depth[0] -= 1

    pcore.literal_value = literal_value
    sys.stdin = io.StringIO("")
    devnull = open(os.devnull, "w")
    sys.stdout = devnull
    try:
        if op["op"] == "TXN":
            # the public scheduler API (processing.fix / chain) driven by a synthetic rule script
            if _verif not in sys.path:
                sys.path.append(_verif)
            from sim import e1_txn

            res = ["ok", e1_txn.run_scheduler(op["case"], max_iter=1)]
        elif op["op"] == "FMT":
            res = ["ok", pyrefact.format_code(
                op["x"], safe=op.get("safe", False), keep_imports=op.get("keep_imports", False),
                preserve=frozenset(op.get("preserve", ())), max_line_length=op.get("max_line_length", 100))]
        else:
            modname, attr = op["rule"].split(".")
            fn = getattr(sys.modules["pyrefact." + modname], attr)
            kw = {}
            if op["rule"] == "abstractions.overused_constant":
                kw["root_is_static"] = True
            res = ["ok", fn(op["x"], **kw)]
    except RecursionError:
        res = ["exc", "RecursionError"]
    except BaseException as e:  # noqa: BLE001
        res = ["exc", type(e).__name__]
    finally:
        sys.stdout = sys.__stdout__
    return {"res": res, "trace": trace}


def main():
    out = sys.__stdout__
    out.write(json.dumps({"ready": True, "probe": probe()}) + "\n")
    out.flush()
    for line in sys.stdin:
        line = line.strip()
        if not line:
            continue
        op = json.loads(line)
        if op.get("op") == "QUIT":
            break
        r, w = os.pipe()
        pid = os.fork()
        if pid == 0:
            try:
                os.close(r)
                ans = run_op(op)
                with os.fdopen(w, "w") as f:
                    f.write(json.dumps(ans))
            finally:
                os._exit(0)
        os.close(w)
        with os.fdopen(r) as f:
            data = f.read()
        os.waitpid(pid, 0)
        out.write((data or json.dumps({"res": ["harness", "child died"], "trace": []})) + "\n")
        out.flush()


main()
