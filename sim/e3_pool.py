"""E3 pool-sim: the CLI (main.main -> format_files) over a generated project tree
on a scratch disk, with multiprocessing.Pool replaced by SimPool: real forked
worker processes (so per-worker cache state is real and isolated, as in
production) that are parked at every file-system operation and released one at a
time by a seeded scheduler.

Real code: all of pyrefact incl. argument parsing, pass bookkeeping, format_file.
Stub: multiprocessing.Pool (CPython 3.12 semantics: chunksize = ceil(len/(4n)),
chunks handed out in list order, a raising task aborts the rest of its chunk,
the result is ready only when all chunks are done, the first exception to arrive
is re-raised, results in list order); open / Path.open wrappers that perform the
real operation on the real scratch file after being released.
"""
from __future__ import annotations

import ast
import builtins
import collections
import io
import multiprocessing as real_mp
import os
import pathlib
import pickle
import random
import shutil
import sys
from typing import Any, Dict, List, Optional, Tuple

from . import core as C
from . import gen

RUN_ROOT = C.SCRATCH_ROOT / "r"

# --------------------------------------------------------------------------- worker-side seam state

_W: Optional["WorkerCtx"] = None  # set inside a pool worker
_SIM: Optional["Sim"] = None  # set inside the CLI (parent) process of a run


class WorkerCtx:
    def __init__(self, wid: int, conn, root: str, granule: int):
        self.wid = wid
        self.conn = conn
        self.root = root
        self.granule = granule


def _under_root(path: str, root: str) -> bool:
    return path == root or path.startswith(root.rstrip("/") + "/")


def _park(kind: str, path: str, extra: Any = None) -> None:
    _W.conn.send(("PARK", kind, path, extra))
    msg = _W.conn.recv()
    if msg != "GO":
        os._exit(3)


def _ack(info: Any = None) -> None:
    _W.conn.send(("ACK", info))


class SimWriter:
    """Write handle of a worker: truncation already happened (and was scheduled);
    the data is flushed in granule-sized fragments, each a scheduled event."""

    def __init__(self, f, path: str):
        self.f = f
        self.path = path
        self.buf: List[str] = []
        self.closed = False

    def write(self, s: str) -> int:
        self.buf.append(s)
        return len(s)

    def writelines(self, lines) -> None:
        for line in lines:
            self.write(line)

    def flush(self) -> None:  # data leaves the process in close(), fragment by fragment
        pass

    def writable(self) -> bool:
        return True

    def __enter__(self):
        return self

    def __exit__(self, *exc):
        self.close()
        return False

    def close(self) -> None:
        if self.closed:
            return
        self.closed = True
        data = "".join(self.buf).encode(self.f.encoding or "utf-8")
        g = _W.granule
        frags = [data[i : i + g] for i in range(0, len(data), g)]
        for k, frag in enumerate(frags):
            _park("FLUSH", self.path, (k + 1, len(frags)))
            self.f.buffer.write(frag)
            self.f.buffer.flush()
            _ack(None)
        _park("CLOSE", self.path)
        self.f.close()
        _ack(None)


def sim_open(file, mode="r", *args, **kwargs):
    """Replacement for the `open` that pyrefact.main sees (and SimPath.open)."""
    path = os.fspath(file)
    if _W is not None and _under_root(os.path.abspath(path), _W.root):
        ap = os.path.abspath(path)
        if "w" in mode:
            _park("TRUNC", ap)
            f = builtins.open(file, mode, *args, **kwargs)
            _ack(None)
            return SimWriter(f, ap)
        _park("READ", ap)
        try:
            with builtins.open(file, mode, *args, **kwargs) as f:
                data = f.read()
        except BaseException as e:  # noqa: BLE001 - e.g. UnicodeDecodeError on a torn multi-byte character
            _ack(("read-error", type(e).__name__))
            raise
        _ack(("read", C.sha(data)[:16], len(data)))
        return io.StringIO(data) if isinstance(data, str) else io.BytesIO(data)
    if _SIM is not None and _under_root(os.path.abspath(path), _SIM.root) and "w" in mode:
        return ParentWriter(file, mode, args, kwargs)
    if _SIM is not None and _under_root(os.path.abspath(path), _SIM.root) and "w" not in mode:
        with builtins.open(file, mode, *args, **kwargs) as f:
            data = f.read()
        _SIM.log.add("parent", "READ", _SIM.rel(os.path.abspath(path)), C.sha(data)[:16])
        _SIM.stats.inc("parent_reads")
        return io.StringIO(data) if isinstance(data, str) else io.BytesIO(data)
    return builtins.open(file, mode, *args, **kwargs)


class ParentWriter:
    """A write by the CLI's own process (no worker is running then): performed at
    once, recorded as TRUNC + CLOSE events with the content before and after."""

    def __init__(self, file, mode, args, kwargs):
        self.path = os.path.abspath(os.fspath(file))
        try:
            with builtins.open(self.path, "rb") as f:
                self.old = f.read()
        except OSError:
            self.old = b""
        busy = [w.wid for w in getattr(_SIM, "workers", []) if w.state != "idle"]
        if busy:
            _SIM.monitor.append({"class": "parent-writes-while-workers-run", "detail": f"{_SIM.rel(self.path)} workers {busy}"})
        self.f = builtins.open(file, mode, *args, **kwargs)
        _SIM.stats.inc("parent_writes")

    def write(self, s):
        return self.f.write(s)

    def writelines(self, lines):
        return self.f.writelines(lines)

    def __getattr__(self, name):  # anything else a file object offers
        return getattr(self.f, name)

    def __enter__(self):
        return self

    def __exit__(self, *exc):
        self.close()
        return False

    def close(self):
        if self.f.closed:
            return
        self.f.close()
        with builtins.open(self.path, "rb") as f:
            new = f.read()
        sim = _SIM
        rel = sim.rel(self.path)
        sim.steps += 1
        for kind in ("TRUNC", "CLOSE"):
            sim.events.append({"seq": sim.steps, "w": -1, "op": kind, "path": rel, "pass": sim.pass_no, "task": rel, "old": self.old, "new": new})
        sim.log.add(sim.steps, "parent", "WRITE", rel, C.sha(new)[:16])


class SimPath(type(pathlib.Path())):
    def open(self, mode="r", *args, **kwargs):  # noqa: A003
        return sim_open(str(self), mode, *args, **kwargs)


# --------------------------------------------------------------------------- worker main loop

def _worker_main(wid: int, conn, root: str, granule: int, fault: Optional[Dict[str, Any]]) -> None:
    global _W, _SIM
    _SIM = None
    _W = WorkerCtx(wid, conn, root, granule)
    if fault:
        _install_stage_fault(fault)
    sys.stdin = io.StringIO("")
    while True:
        try:
            msg = conn.recv()
        except EOFError:
            os._exit(0)
        if msg[0] == "STOP":
            os._exit(0)
        _, items = msg
        for idx, func, args, kwds in items:
            try:
                res = ("ok", func(*args, **kwds))
            except BaseException as e:  # noqa: BLE001 - SystemExit from an evaluated exit() must not kill the worker silently
                try:
                    blob = pickle.dumps(e) if isinstance(e, Exception) else None
                except Exception:  # noqa: BLE001
                    blob = None
                res = ("exc", type(e).__name__, str(e)[:300], blob)
            conn.send(("RESULT", idx, res))
            if res[0] == "exc":
                break  # starmapstar: the rest of the chunk never runs
        conn.send(("CHUNK_DONE",))


_FAULT_STATE = {"calls": 0, "fired": 0}


def _install_stage_fault(fault: Dict[str, Any]) -> None:
    """stage_returns_invalid: one late, non-scheduled stage that format_code calls
    through a module attribute returns its result with an unbalanced bracket
    appended on its k-th call in this process -- "a rule misbehaves"."""
    modname, attr = fault["stage"].rsplit(".", 1)
    mod = sys.modules.get(modname) or __import__(modname, fromlist=["x"])
    real = getattr(mod, attr)
    if getattr(real, "_sim_fault", False):
        return

    def faulty(*a, **k):
        out = real(*a, **k)
        _FAULT_STATE["calls"] += 1
        if _FAULT_STATE["calls"] in fault["calls"]:
            _FAULT_STATE["fired"] += 1
            if isinstance(out, tuple):
                return (out[0] + "\nbroken = (]\n",) + tuple(out[1:])
            return out + "\nbroken = (]\n"
        return out

    faulty._sim_fault = True
    faulty._fix_func = getattr(real, "_fix_func", None)
    setattr(mod, attr, faulty)


# --------------------------------------------------------------------------- the scheduler (parent side)

class SimTaskError(Exception):
    pass


class Worker:
    def __init__(self, wid: int, pid: int, conn):
        self.wid = wid
        self.pid = pid
        self.conn = conn
        self.state = "idle"  # idle | running | parked
        self.op: Optional[Tuple[str, str, Any]] = None
        self.task: Optional[int] = None
        self.writing: Optional[str] = None  # path between TRUNC and CLOSE
        self.prio = 0.0
        self.tasks_done = 0
        self.chunk: List[str] = []
        self.pos = 0
        self.job: Optional[Dict[str, Any]] = None


class Sim:
    """One CLI run: owns the choice stream, the event log and the FS monitor."""

    def __init__(self, root: str, sched: Dict[str, Any]):
        self.root = root
        self.sched = sched
        self.rng = random.Random(sched.get("sched_seed", 0))
        self.replay: Optional[List[int]] = list(sched["choices"]) if sched.get("choices") is not None else None
        self.choices: List[int] = []
        self.strategy = sched.get("strategy", "random")
        self.granule = int(sched.get("granule", 8192))
        self.log = C.EventLog(keep=2000)
        self.stats = C.Counter()
        self.pass_no = 0
        self.events: List[Dict[str, Any]] = []  # structured FS events for the oracles
        self.pass_results: List[List[Any]] = []
        self.pass_files: List[List[str]] = []
        self.monitor: List[Dict[str, Any]] = []  # violations of always-on invariants
        self.preempt_left = sched.get("preemptions", 2)
        self.current: Optional[int] = None
        self.steps = 0
        self.fault = sched.get("fault")

    def rel(self, path: str) -> str:
        return os.path.relpath(path, self.root)

    def choose(self, n: int, pick) -> int:
        """One scheduling decision among n options (deterministically ordered)."""
        if n <= 1:
            return 0
        if self.replay is not None:
            idx = self.replay.pop(0) % n if self.replay else 0
        else:
            idx = pick()
        self.choices.append(idx)
        return idx

    # ---- strategies for "which parked worker performs its FS operation next"
    def pick_worker(self, parked: List[Worker]) -> Worker:
        def pick() -> int:
            if self.strategy == "first":
                return 0
            if self.strategy == "chase" or (self.strategy == "mixed" and self.rng.random() < 0.5):
                writers = {w.writing for w in self.workers if w.writing}
                readers = [i for i, w in enumerate(parked) if w.op and w.op[0] == "READ" and w.op[1] in writers]
                if readers and self.rng.random() < 0.8:
                    self.stats.inc("sched.reader_released_inside_write_window")
                    return self.rng.choice(readers)
                return self.rng.randrange(len(parked))
            if self.strategy == "pct":
                # run-to-completion by priority, with a few random pre-emptions
                if self.current is not None and self.preempt_left > 0 and self.rng.random() < 0.08:
                    self.preempt_left -= 1
                    for w in parked:
                        if w.wid == self.current:
                            w.prio = -self.rng.random()
                    self.stats.inc("sched.preemptions")
                best = max(range(len(parked)), key=lambda i: (parked[i].prio, -parked[i].wid))
                return best
            return self.rng.randrange(len(parked))

        i = self.choose(len(parked), pick)
        self.current = parked[i].wid
        return parked[i]

    def pick_idle(self, idle: List[Worker]) -> Worker:
        i = self.choose(len(idle), lambda: 0 if self.strategy == "first" else self.rng.randrange(len(idle)))
        return idle[i]


class _SimAsyncResult:
    def __init__(self, pool, state, is_ready, callback, error_callback, is_map: bool):
        self.pool = pool
        self.state = state
        self._is_ready = is_ready
        self._callback = callback
        self._error_callback = error_callback
        self._is_map = is_map
        self._fired = False

    def _value(self):
        return list(self.state["results"]) if self._is_map else self.state["results"][0]

    def _fire_callbacks(self) -> None:
        if self._fired:
            return
        self._fired = True
        if self.state["first_exc"] is not None:
            if self._error_callback:
                self._error_callback(SimPool._exc_of(self.state["first_exc"]))
        elif self._callback:
            self._callback(self._value())

    def ready(self) -> bool:
        return self._is_ready()

    def successful(self) -> bool:
        if not self.ready():
            raise ValueError("not ready")
        return self.state["first_exc"] is None

    def wait(self, timeout=None) -> None:
        self.pool._pump(self._is_ready)
        self._fire_callbacks()
        if self._is_map and not self.state.get("recorded") and self.state["n"]:
            self.state["recorded"] = True
            sim = self.pool.sim
            sim.pass_results.append(list(self.state["results"]))
            sim.log.add("pass", sim.pass_no, "results", [_changed(r) for r in self.state["results"]])

    def get(self, timeout=None):
        self.wait()
        if self.state["first_exc"] is not None:
            self.pool.sim.log.add("raises", self.state["first_exc"][1])
            raise SimPool._exc_of(self.state["first_exc"])
        return self._value()


class SimPool:
    def __init__(self, sim: Sim, processes: Optional[int] = None):
        if processes is None:
            processes = 4
        if processes < 1:
            raise ValueError("Number of processes must be at least 1")
        self.sim = sim
        self.workers: List[Worker] = []
        self.queue: "collections.deque" = collections.deque()
        self.written_this_pass: Dict[str, int] = {}
        sim.workers = self.workers
        sim.log.add("pool", "create", processes)
        sim.stats.inc("pools_created")
        ctx = real_mp.get_context("fork")
        sys.stdout.flush()
        sys.stderr.flush()
        conns = []
        for wid in range(processes):
            parent_conn, child_conn = ctx.Pipe(duplex=True)
            pid = os.fork()
            if pid == 0:
                try:
                    parent_conn.close()
                    for c in conns:
                        c.close()
                    _worker_main(wid, child_conn, sim.root, sim.granule, sim.fault)
                finally:
                    os._exit(0)
            child_conn.close()
            conns.append(parent_conn)
            w = Worker(wid, pid, parent_conn)
            w.prio = sim.rng.random() if sim.replay is None else 0.0
            self.workers.append(w)
        self.closed = False

    def __enter__(self):
        return self

    def __exit__(self, *exc):
        self.terminate()
        return False

    def terminate(self) -> None:
        if self.closed:
            return
        self.closed = True
        for w in self.workers:
            try:
                w.conn.send(("STOP",))
            except (OSError, ValueError):
                pass
        for w in self.workers:
            try:
                os.kill(w.pid, 9)
            except ProcessLookupError:
                pass
            try:
                os.waitpid(w.pid, 0)
            except ChildProcessError:
                pass
            w.conn.close()

    def close(self) -> None:  # the real close() lets queued work finish; terminate() happens in __exit__
        pass

    def join(self) -> None:
        self._pump(lambda: not self.queue and all(w.state == "idle" for w in self.workers))

    # ------------------------------------------------------------------ job plumbing
    def _label(self, args: Any) -> str:
        try:
            first = args[0]
            return self.sim.rel(str(first)) if _under_root(os.path.abspath(str(first)), self.sim.root) else str(first)[:40]
        except Exception:  # noqa: BLE001
            return "?"

    def _submit(self, items: List[Tuple[Any, Any, tuple, dict]], on_item, on_done=None) -> Dict[str, Any]:
        """One job = a chunk of calls that one worker runs one after the other
        (a raising call ends the chunk, as in starmapstar)."""
        job = {"items": items, "on_item": on_item, "on_done": on_done, "done": False, "labels": [self._label(it[2]) for it in items]}
        self.queue.append(job)
        return job

    def _pump(self, until) -> None:
        """The scheduler: runs until the condition holds.  Decisions: which idle
        worker takes the next queued job; which parked worker performs its FS
        operation next.  Results (and callbacks) are processed in the order in
        which the scheduled execution produces them - the completion order."""
        sim = self.sim
        while not until():
            idle = [w for w in self.workers if w.state == "idle"]
            while self.queue and idle:
                w = sim.pick_idle(idle)
                idle.remove(w)
                job = self.queue.popleft()
                sim.log.add("assign", "w%d" % w.wid, job["labels"])
                w.conn.send(("CHUNK", [(k, it[1], it[2], it[3]) for k, it in enumerate(job["items"])]))
                w.state = "running"
                w.job = job
                w.chunk = job["labels"]
                w.pos = 0
            for w in self.workers:
                while w.state == "running":
                    try:
                        msg = w.conn.recv()
                    except EOFError:
                        raise C.HarnessError(f"pool worker {w.wid} died")
                    if msg[0] == "PARK":
                        w.state = "parked"
                        w.op = (msg[1], msg[2], msg[3])
                    elif msg[0] == "RESULT":
                        _, k, res = msg
                        w.tasks_done += 1
                        w.pos += 1
                        sim.log.add("result", "w%d" % w.wid, w.job["labels"][k], res[:3] if res[0] == "exc" else ("ok", C.sha(res[1])[:12] if isinstance(res[1], str) else res[1]))
                        if res[0] == "exc":
                            sim.stats.inc("task_raised")
                        w.job["on_item"](w.job["items"][k][0], res)
                    elif msg[0] == "CHUNK_DONE":
                        w.state = "idle"
                        job, w.job = w.job, None
                        job["done"] = True
                        if job["on_done"]:
                            job["on_done"]()
                    else:
                        raise C.HarnessError(f"unexpected worker message {msg[0]}")
            if until():
                return
            parked = [w for w in self.workers if w.state == "parked"]
            if not parked:
                if not self.queue and all(w.state == "idle" for w in self.workers):
                    raise C.HarnessError("pool is idle but the awaited result never arrived")
                continue
            w = sim.pick_worker(parked)
            self._release(w, self.written_this_pass)

    @staticmethod
    def _exc_of(res) -> BaseException:
        exc = None
        if res[3] is not None:
            try:
                exc = pickle.loads(res[3])
            except Exception:  # noqa: BLE001
                exc = None
        return exc if isinstance(exc, BaseException) else SimTaskError(f"{res[1]}: {res[2]}")

    # ------------------------------------------------------------------ map family
    def map(self, func, iterable, chunksize=None):
        return self._map(func, [(x,) for x in iterable], chunksize)

    def starmap(self, func, iterable, chunksize=None):
        return self._map(func, [tuple(x) for x in iterable], chunksize)

    def _map_async(self, func, tasks, chunksize=None, callback=None, error_callback=None):
        sim = self.sim
        sim.pass_no += 1
        self.written_this_pass = {}
        n = len(tasks)
        if chunksize is None:
            chunksize, extra = divmod(n, len(self.workers) * 4)
            if extra:
                chunksize += 1
        files = [self._label(t) for t in tasks]
        state = {"results": [None] * n, "first_exc": None, "left": 0, "n": n, "files": files, "order": []}
        if n == 0:
            return _SimAsyncResult(self, state, lambda: True, callback, error_callback, is_map=True)
        sim.pass_files.append(files)
        sim.log.add("pass", sim.pass_no, "tasks", files, "chunksize", chunksize)

        def on_item(idx, res):
            state["order"].append(idx)
            if res[0] == "ok":
                state["results"][idx] = res[1]
            elif state["first_exc"] is None:
                state["first_exc"] = res

        def on_done():
            state["left"] -= 1

        for i in range(0, n, chunksize):
            state["left"] += 1
            self._submit([(j, func, tasks[j], {}) for j in range(i, min(n, i + chunksize))], on_item, on_done)
        return _SimAsyncResult(self, state, lambda: state["left"] == 0, callback, error_callback, is_map=True)

    def _map(self, func, tasks, chunksize=None):
        ar = self._map_async(func, tasks, chunksize)
        return ar.get()

    def map_async(self, func, iterable, chunksize=None, callback=None, error_callback=None):
        return self._map_async(func, [(x,) for x in iterable], chunksize, callback, error_callback)

    def starmap_async(self, func, iterable, chunksize=None, callback=None, error_callback=None):
        return self._map_async(func, [tuple(x) for x in iterable], chunksize, callback, error_callback)

    def imap(self, func, iterable, chunksize=1):
        return iter(self._map(func, [(x,) for x in iterable], chunksize))

    def imap_unordered(self, func, iterable, chunksize=1):
        ar = self._map_async(func, [(x,) for x in iterable], chunksize)
        ar.wait()
        if ar.state["first_exc"] is not None:
            raise self._exc_of(ar.state["first_exc"])
        return iter([ar.state["results"][i] for i in ar.state["order"]])  # completion order

    # ------------------------------------------------------------------ apply family
    def apply_async(self, func, args=(), kwds=None, callback=None, error_callback=None):
        state = {"results": [None], "first_exc": None, "left": 1, "n": 1, "files": [self._label(args)], "order": []}
        ar = _SimAsyncResult(self, state, lambda: state["left"] == 0, callback, error_callback, is_map=False)

        def on_item(idx, res):
            if res[0] == "ok":
                state["results"][0] = res[1]
            else:
                state["first_exc"] = res

        def on_done():
            state["left"] = 0
            ar._fire_callbacks()  # in completion order, from inside the scheduler, like the real result handler

        self.sim.stats.inc("apply_async_jobs")
        self._submit([(0, func, tuple(args), dict(kwds or {}))], on_item, on_done)
        return ar

    def apply(self, func, args=(), kwds=None):
        return self.apply_async(func, args, kwds).get()

    def _release(self, w: Worker, written_this_pass: Dict[str, int]) -> None:
        """Let worker w perform its parked FS operation; monitor the file system around it."""
        sim = self.sim
        kind, path, extra = w.op
        rel = sim.rel(path)
        sim.steps += 1
        sim.stats.inc("steps")
        sim.stats.inc(f"fs.{kind}")
        ev: Dict[str, Any] = {"seq": sim.steps, "w": w.wid, "op": kind, "path": rel, "pass": sim.pass_no,
                              "task": w.chunk[w.pos] if w.pos < len(w.chunk) else None}
        others_writing = [o for o in self.workers if o is not w and o.writing == path]
        if kind == "TRUNC":
            try:
                with builtins.open(path, "rb") as f:
                    old = f.read()
            except OSError:
                old = b""
            ev["old"] = old
            w.writing = path
            if rel in written_this_pass and written_this_pass[rel] != w.wid:
                sim.monitor.append({"class": "file-written-by-two-tasks-in-one-pass", "detail": f"{rel} in pass {sim.pass_no}"})
            written_this_pass[rel] = w.wid
            if others_writing:
                sim.monitor.append({"class": "concurrent-writers", "detail": f"{rel} in pass {sim.pass_no}"})
        if kind == "READ" and others_writing:
            ev["inside_write_window"] = True
            sim.stats.inc("fault.read_inside_write_window")
        if kind == "FLUSH" and extra and extra[1] > 1:
            sim.stats.inc("fault.fragmented_flush")
        w.conn.send("GO")
        try:
            ack = w.conn.recv()
        except EOFError:
            raise C.HarnessError(f"pool worker {w.wid} died during {kind}")
        if ack[0] != "ACK":
            raise C.HarnessError(f"expected ACK, got {ack[0]}")
        if kind == "READ":
            ev["seen"] = ack[1][1] if ack[1] and ack[1][0] == "read" else "error:" + str(ack[1][1] if ack[1] else "")
            if ack[1] and ack[1][0] == "read-error":
                sim.stats.inc("fault.read_error_on_torn_file")
        if kind == "CLOSE":
            try:
                with builtins.open(path, "rb") as f:
                    new = f.read()
            except OSError:
                new = b""
            ev["new"] = new
            # the TRUNC event of this write
            for prev in reversed(sim.events):
                if prev["op"] == "TRUNC" and prev["path"] == rel and prev["w"] == w.wid:
                    ev["old"] = prev["old"]
                    break
            w.writing = None
        sim.events.append(ev)
        sim.log.add(
            sim.steps, "w%d" % w.wid, kind, rel, extra,
            ev.get("seen") or (C.sha(ev["new"])[:16] if "new" in ev else ""),
        )
        w.state = "running"
        w.op = None


class FakeMP:
    """Stands in for the `multiprocessing` module inside pyrefact.main."""

    def __init__(self, sim: Sim):
        self._sim = sim

    def Pool(self, processes=None, *a, **k):  # noqa: N802
        return SimPool(self._sim, processes)

    @staticmethod
    def cpu_count() -> int:
        return 4


# --------------------------------------------------------------------------- one CLI run (fresh fork)

def _changed(r: Any) -> Optional[bool]:
    """Did the task report a change?  (bool/int from format_file; new text or None
    from a worker that returns content.)  None = the task produced no result."""
    if isinstance(r, str):
        return True
    return bool(r)


ENCODED_FILE = "vsm_legacy_encoding.py"  # written in the encoding its PEP 263 cookie declares


def _file_bytes(rel: str, text: str) -> bytes:
    if rel.endswith(ENCODED_FILE):
        return text.encode("cp1252")
    return text.encode("utf-8", "surrogateescape")


def materialise(root: str, files: Dict[str, str]) -> None:
    shutil.rmtree(root, ignore_errors=True)
    for rel, text in files.items():
        p = os.path.join(root, rel)
        os.makedirs(os.path.dirname(p), exist_ok=True)
        with builtins.open(p, "wb") as f:
            f.write(_file_bytes(rel, text))


def read_tree(root: str) -> Dict[str, str]:
    out = {}
    for dirpath, dirnames, filenames in os.walk(root):
        dirnames[:] = sorted(d for d in dirnames if d != "__pycache__")
        for fn in sorted(filenames):
            p = os.path.join(dirpath, fn)
            with builtins.open(p, "rb") as f:
                out[os.path.relpath(p, root)] = f.read().decode("utf-8", "surrogateescape")
    return out


def cli_run(spec: Dict[str, Any]) -> Dict[str, Any]:
    """Runs in a fresh fork of the zygote.  spec: root, files (or keep_tree), argv, sched."""
    global _SIM
    main_mod = C.import_pyrefact()
    import pyrefact.tracing as ptracing

    root = spec["root"]
    if not spec.get("keep_tree"):
        materialise(root, spec["files"] if not spec.get("phase1_files") else spec["phase1_files"])
    os.chdir(root)
    sim = Sim(root, spec["sched"])
    _SIM = sim
    main_mod.mp = FakeMP(sim)
    main_mod.open = sim_open
    ptracing.Path = SimPath
    ff_returns: List[Any] = []
    real_ff = main_mod.format_files

    def format_files(*a, **k):
        r = real_ff(*a, **k)
        ff_returns.append(r)
        return r

    main_mod.format_files = format_files
    sys.stdin = io.StringIO(spec.get("stdin", ""))
    sim.log.add("argv", [a if not a.startswith(root) else sim.rel(a) for a in spec["argv"]])
    sys_path_before = list(sys.path)
    try:
        if spec.get("other_tree_first"):
            other_root = root + "_other"
            materialise(other_root, spec["other_tree_first"])
            os.chdir(other_root)
            try:
                main_mod.main([a.replace(root, other_root) for a in spec["argv"]])
            except BaseException:  # noqa: BLE001
                pass
            finally:
                os.chdir(root)
                shutil.rmtree(other_root, ignore_errors=True)
            sim.stats.inc("fault.earlier_cli_run_over_another_tree_in_same_process")
            del sim.events[:]
            del sim.pass_files[:]
            del sim.pass_results[:]
            del ff_returns[:]
            sim.pass_no = 0
        if spec.get("phase1_files"):
            # history inside one process: a first CLI run over an earlier version of the tree, then the
            # files are put (back) to the version under test and the run that is judged follows
            try:
                main_mod.main(list(spec["argv"]))
            except BaseException:  # noqa: BLE001
                pass
            sim.stats.inc("fault.earlier_cli_run_in_same_process")
            for rel, text in spec["files"].items():
                p = os.path.join(root, rel)
                os.makedirs(os.path.dirname(p), exist_ok=True)
                with builtins.open(p, "wb") as f:
                    f.write(_file_bytes(rel, text))
            del sim.events[:]
            del sim.pass_files[:]
            del sim.pass_results[:]
            del ff_returns[:]
            sim.pass_no = 0
        rc = main_mod.main(list(spec["argv"]))
        outcome = ["ok", rc]
    except SystemExit as e:
        outcome = ["exit", str(e.code)]
    except C.HarnessError:
        raise
    except BaseException as e:  # noqa: BLE001
        outcome = ["raised", type(e).__name__, str(e)[:200]]
    finally:
        for obj in list(getattr(sim, "workers", [])):
            try:
                os.kill(obj.pid, 9)
                os.waitpid(obj.pid, 0)
            except (ProcessLookupError, ChildProcessError):
                pass
    sim.log.add("outcome", outcome, ff_returns)
    tree = read_tree(root)
    sim.log.add("tree", {k: C.sha(v)[:16] for k, v in tree.items()})
    # compact events for the oracles (bytes -> text)
    events = []
    for ev in sim.events:
        e = dict(ev)
        for k in ("old", "new"):
            if k in e:
                e[k + "_bytes"] = e[k]  # validity is judged on the bytes (PEP 263 cookie, BOM)
                e[k] = e[k].decode("utf-8", "surrogateescape")
        events.append(e)
    return {
        "outcome": outcome,
        "ff_returns": ff_returns,
        "tree": tree,
        "pass_files": sim.pass_files,
        "pass_results": [[_changed(r) for r in rs] for rs in sim.pass_results],
        "events": events,
        "monitor": sim.monitor,
        "choices": sim.choices,
        "stats": dict(sim.stats),
        "digest": sim.log.digest(),
        "log": sim.log.lines(),
        "sys_path_restored": sys.path == sys_path_before,
    }


# --------------------------------------------------------------------------- project generator

def _mod_name(rng: random.Random, k: int) -> str:
    return f"vsm{k}_{rng.choice(['alpha', 'beta', 'gamma', 'delta', 'util', 'core', 'io'])}"


def small_snippets(max_len: int = 700) -> List[Dict[str, Any]]:
    return [e for e in gen.corpus() if len(e["source"]) <= max_len and "input(" not in e["source"]]


def gen_tree(rng: random.Random, profile: str) -> Dict[str, Any]:
    """2-8 files in 1-3 folders.  Module names are prefixed so they never collide
    with stdlib / site-packages; __init__ bodies are benign (find_spec('pkg.mod')
    executes them inside the tool's process)."""
    corp = small_snippets()
    n_files = rng.randint(2, 8)
    n_dirs = rng.randint(1, 3)
    if rng.random() < 0.5:
        dirs = [""] + [f"vsp{d}_{rng.choice(['pkg', 'lib', 'sub'])}" for d in range(1, n_dirs)]
    else:
        # folders that nest, with names that sort *between* the files of their parent
        # ('vsm3_alpha.py' < 'vsm3x_pkg1/...' < 'vsm4_beta.py'): the sorted file list interleaves folders
        dirs = [""]
        for d in range(1, rng.randint(2, 4)):
            parent = rng.choice(dirs)
            nm = f"vsm{rng.randrange(0, n_files)}x_{rng.choice(['pkg', 'lib', 'sub'])}{d}"
            dirs.append(f"{parent}/{nm}" if parent else nm)
    files: Dict[str, str] = {}
    mods: List[Tuple[str, str]] = []  # (import name, relpath)
    with_edges = profile in ("edges", "imports") or (profile == "base" and rng.random() < 0.5)
    for k in range(n_files):
        d = rng.choice(dirs)
        name = _mod_name(rng, k)
        rel = f"{d}/{name}.py" if d else f"{name}.py"
        imp = f"{d.replace('/', '.')}.{name}" if d else name
        body_kind = rng.random()
        if body_kind < 0.55:
            text = rng.choice(corp)["source"]
        elif body_kind < 0.75:
            text = gen.gen_module(rng)
        else:
            a, b = rng.choice(corp)["source"], rng.choice(corp)["source"]
            text = a.rstrip("\n") + "\n\n\n" + b.lstrip("\n")
            try:
                ast.parse(text)
            except (SyntaxError, ValueError):
                text = a
        defs = [f"pub_{name}_{j}" for j in range(rng.randint(1, 3))]
        exports = "".join(f"\n\ndef {dname}(x):\n    return x + {j}\n" for j, dname in enumerate(defs))
        text = text.rstrip("\n") + "\n" + exports
        if with_edges and mods and rng.random() < 0.6:
            tgt_imp, tgt_rel = rng.choice(mods)
            tgt_defs = [ln.split("(")[0][4:] for ln in files[tgt_rel].splitlines() if ln.startswith("def pub_")]
            form = rng.choice(["star", "from", "from_as", "import", "reimport", "reimport"])
            use = rng.choice(tgt_defs) if tgt_defs else None
            if use and form == "reimport":
                # the imported module re-exports a stdlib module that it uses but (in half of the cases)
                # does not import yet: the tool adds that import to it in pass 1, and only then can it
                # redirect this file's 'from <module> import math' to 'import math'
                std = rng.choice(["math", "os", "json"])
                attr = {"math": "sqrt(4)", "os": "getcwd()", "json": "dumps({})"}[std]
                tgt_text = files[tgt_rel]
                if f"{std}." not in tgt_text:
                    add = f"\n\ndef uses_{std}_{k}():\n    return {std}.{attr}\n\n\nprint(uses_{std}_{k}())\n"
                    if rng.random() < 0.5:
                        tgt_text = f"import {std}\n" + tgt_text
                    files[tgt_rel] = tgt_text.rstrip("\n") + add
                head = f"from {tgt_imp} import {std}, {use}\n"
                call = f"print({use}(5), {std}.__name__)\n"
                text = head + text.rstrip("\n") + "\n" + call
            elif use:
                if form == "star":
                    head = f"from {tgt_imp} import *\n"
                    call = f"print({use}(1))\n"
                elif form == "from":
                    head = f"from {tgt_imp} import {use}\n"
                    call = f"print({use}(2))\n"
                elif form == "from_as":
                    head = f"from {tgt_imp} import {use} as aliased_{k}\n"
                    call = f"print(aliased_{k}(3))\n"
                else:
                    head = f"import {tgt_imp}\n"
                    call = f"print({tgt_imp}.{use}(4))\n"
                text = head + text.rstrip("\n") + "\n" + call
        if rng.random() < 0.12:
            text = text + "\n" + "# padding " + "x" * 90 + "\n" * 1 + "".join(f"# pad line {i} {'y' * 80}\n" for i in range(rng.choice([60, 120])))
        try:
            ast.parse(text)
        except (SyntaxError, ValueError):
            text = f"def pub_{name}_0(x):\n    return x\n"
        files[rel] = text
        mods.append((imp, rel))
    for d in dirs:
        if d:
            files.setdefault(f"{d}/__init__.py", rng.choice(["", "", "VERSION = 1\n"]))
    # script folders: two plain folders that each bring their own regular package of one name with other
    # contents, and a script next to it importing through the dotted name (what `python folder/script.py`
    # would resolve to the folder's own package); whatever the tool resolves it to must not depend on which
    # worker formatted which script before
    if profile in ("base", "edges") and rng.random() < 0.2:
        hp = "vshelpers"
        variants = [("square", "x * x"), ("cube", "x * x * x"), ("double", "x + x")]
        rng.shuffle(variants)
        for folder, (fn, expr) in zip(rng.sample(["vss_reports", "vss_tools", "vsa_jobs"], 2), variants):
            files[f"{folder}/{hp}/__init__.py"] = ""
            files[f"{folder}/{hp}/shapes.py"] = f"def {fn}(x):\n    return {expr}\n"
            files[f"{folder}/run_{fn}.py"] = f"from {hp}.shapes import *\n\nprint({fn}(3))\n"
        if rng.random() < 0.4:
            fn, expr = variants[2]
            files[f"{hp}/__init__.py"] = ""
            files[f"{hp}/shapes.py"] = f"def {fn}(x):\n    return {expr}\n\n\ndef {variants[0][0]}(x):\n    return -x\n"
    # near twins: a shared function text with a pure helper in one file and an impure one in the other
    if profile in ("base", "edges", "converge") and rng.random() < 0.25:
        a, b = gen.near_twins(rng)
        first, second = rng.choice([("vsm_twin_a.py", "vsm_twin_b.py"), ("vsm_twin_b.py", "vsm_twin_a.py")])
        files[first], files[second] = a, b
    # identical twins: the realistic way one worker sees the same text twice
    if rng.random() < 0.25 and mods:
        imp, rel = rng.choice(mods)
        twin = rel[:-3] + "_twin.py"
        files[twin] = files[rel]
    if profile in ("optout", "base") and rng.random() < (0.9 if profile == "optout" else 0.15):
        for rel in rng.sample(sorted(files), rng.randint(1, max(1, len(files) // 2))):
            if not rel.endswith("__init__.py"):
                lines = files[rel].split("\n")
                pos = rng.choice([0, len(lines) // 2, len(lines)])
                lines.insert(pos, rng.choice(["# pyrefact: skip_file", "x_skip = 1  # pyrefact: skip_file", "# flake8: noqa  # pyrefact: skip_file", "x_skip = 1  # noqa  # pyrefact: skip_file"]))
                files[rel] = "\n".join(lines)
                if rng.random() < 0.3:
                    # mixed line endings (part of the file edited on another platform): byte-for-byte means these too
                    parts_ = files[rel].split("\n")
                    files[rel] = "".join(pt + ("\r\n" if (j % 3 == 0) else "\n") for j, pt in enumerate(parts_[:-1])) + parts_[-1]
    if rng.random() < 0.1:
        files["vsm_broken.py"] = "def broken(:\n    pass\n"  # file-level invalid input
    if profile in ("base", "stagefault") and rng.random() < 0.1:
        # characters that str.splitlines() treats as line ends but Python's tokenizer does not, inside a comment
        ch = rng.choice(["\x0c", "\x0b", "\x1c", "\x85", "\u2028"])
        files["vsm_separators.py"] = (
            "SEP = 'ab'  # note " + ch + " end of note\n\n\ndef sep(x):\n    if x == None:\n        return SEP\n    else:\n        return 2\n\n\nprint(sep(1))\n"
        )
    if profile in ("base", "stagefault") and rng.random() < 0.1:
        # a valid file that is not UTF-8: cp1252 bytes under a PEP 263 cookie, with something to fix in it
        files[ENCODED_FILE] = "# -*- coding: cp1252 -*-\n# caf\xe9 \xcd\ndef legacy(x):\n    if x == None:\n        return 1\n    else:\n        return 2\n\n\nprint(legacy(3))\n"
    return {"files": files}


def gen_sched(rng: random.Random, n_files: int) -> Dict[str, Any]:
    return {
        "n_cores": rng.choice([1, 2, 2, 3, 3, 4, 5, 8, 16]),
        "strategy": rng.choice(["random", "random", "pct", "chase", "mixed"]),
        "sched_seed": rng.randrange(1 << 62),
        "granule": rng.choice([4096, 8192, 8192, 65536]),
        "preemptions": rng.choice([1, 2, 3]),
    }


def gen_argv(rng: random.Random, files: Dict[str, str], root: str, mode: str = "mixed") -> List[str]:
    rels = sorted(files)
    r = rng.random()
    if r < 0.4:
        paths = [root]
    elif r < 0.7:
        paths = [os.path.join(root, rel) for rel in rels if rel.endswith(".py")]
        rng.shuffle(paths)
        if rng.random() < 0.3 and paths:
            paths.append(rng.choice(paths))  # duplicate argument
    else:
        tops = sorted({rel.split("/")[0] for rel in rels})
        paths = [os.path.join(root, t) for t in tops]
        rng.shuffle(paths)
    return paths


def generate(rng: random.Random, profile: Optional[Dict[str, Any]] = None) -> Dict[str, Any]:
    from . import e3_profiles as P

    profile = profile or {}
    pname = profile.get("profile", "base")
    k = profile.get("schedules", 3)
    root = "<ROOT>"
    if pname in ("preserve", "imports"):
        tree = P.gen_preserve_tree(rng) if pname == "preserve" else P.gen_imports_tree(rng)
        case = {"engine": "e3", "profile": pname, "files": tree["files"], "safe": False, "paths": None, "runs": [], "fault": None}
        if pname == "preserve":
            case["paths"], case["preserve"] = P.preserve_paths(rng, tree)
            pres = [rel for rel in tree["files"] if any(pp == "<ROOT>" or pp == "<ROOT>/" + rel for pp in case["preserve"])]
            case["tree_meta"] = {"libs": tree["libs"], "clients": tree["clients"], "preserved_files": sorted(pres)}
            case["safe"] = rng.random() < 0.15
            if rng.random() < 0.35:
                # an earlier run in the same process saw clients that referenced less
                p1 = dict(tree["files"])
                for crel in tree["clients"]:
                    lines = p1[crel].split("\n")
                    keep = [l for i, l in enumerate(lines) if not l.startswith(("from ", "import ")) or i == 0]
                    body = "\n".join(keep)
                    start = body.find("REFERENCES = [\n")
                    if start >= 0:
                        body = body[:start] + "REFERENCES = []\n"
                    try:
                        ast.parse(body)
                        p1[crel] = body
                    except SyntaxError:
                        p1[crel] = lines[0] + "\n"
                case["phase1_files"] = p1
        else:
            case["paths"] = ["<ROOT>/" + c for c in tree["clients"]]
            rng.shuffle(case["paths"])
            case["tree_meta"] = {"clients": tree["clients"]}
            case["safe"] = rng.random() < 0.3
            # Shape (ii) of DESIGN 4/C18 (libraries and clients formatted together in safe mode) was built and
            # withdrawn: safe mode does not keep a library's re-exports (an import that the module itself does
            # not use is removed, so 'from chain2 import deep_func' vanishes from a re-export-only module and
            # clients of it break).  That is about the library's surface (C07 / C08), not about a module's own
            # names resolving to the same objects, so judging it here would demand more than C18 states.
            rng.random()  # keep the draw so seeds map to the same cases as before
            if rng.random() < 0.35:
                # an earlier run of the same process formatted *another* project (other directory) whose
                # modules have the same names but another layout
                case["other_tree_first"] = P.rewired_tree(tree["files"], tree["base"])
        for _ in range(k):
            s = gen_sched(rng, len(tree["files"]))
            s["paths"] = list(case["paths"])
            case["runs"].append(s)
        return case
    tree = gen_tree(rng, pname)
    case: Dict[str, Any] = {
        "engine": "e3",
        "profile": pname,
        "files": tree["files"],
        "safe": rng.random() < 0.2,
        "paths": None,
        "runs": [],
        "fault": None,
    }
    case["paths"] = gen_argv(rng, tree["files"], root)
    for _ in range(k):
        s = gen_sched(rng, len(tree["files"]))
        s["paths"] = gen_argv(rng, tree["files"], root) if rng.random() < 0.5 else list(case["paths"])
        case["runs"].append(s)
    if pname == "stagefault":
        case["fault"] = {
            # format_code itself (what the write guard sees is broken text), the last stages of
            # format_code, or the helper every rewrite goes through (then the pass rollback decides)
            "stage": rng.choice([
                "pyrefact.main.format_code", "pyrefact.main.format_code", "pyrefact.main.format_code",
                "pyrefact.fixes.fix_line_lengths", "rmspace.format_str",
                "pyrefact.processing.minimize_whitespace_line_differences",
                "pyrefact.fixes.sort_imports",
            ]),
            "calls": sorted(rng.sample(range(1, 10), rng.randint(1, 4))),
        }
    return case


# --------------------------------------------------------------------------- execute + oracles

def _argv(case: Dict[str, Any], paths: List[str], root: str, n_cores: int) -> List[str]:
    argv = [p.replace("<ROOT>", root) for p in paths]
    argv += ["--n_cores", str(n_cores)]
    if case.get("safe"):
        argv.append("--safe")
    if case.get("preserve"):
        argv += ["--preserve"] + [p.replace("<ROOT>", root) for p in case["preserve"]]
    return argv


def _parses(text) -> bool:
    try:
        ast.parse(text)
        return True
    except (SyntaxError, ValueError, RecursionError):
        return False


def task_reads(run: Dict[str, Any]) -> Dict[Tuple[int, str], List[Tuple[str, str]]]:
    """(pass, file) -> ordered reads of *other* files (path, observed content hash) by that task."""
    out: Dict[Tuple[int, str], List[Tuple[str, str]]] = {}
    for ev in run["events"]:
        if ev["op"] != "READ" or ev.get("task") is None:
            continue
        key = (ev["pass"], ev["task"])
        out.setdefault(key, [])
        if ev["path"] != ev["task"]:
            out[key].append((ev["path"], ev.get("seen", "")))
    return out


def writes_per_pass(run: Dict[str, Any]) -> Dict[str, List[Tuple[int, str]]]:
    out: Dict[str, List[Tuple[int, str]]] = {}
    for ev in run["events"]:
        if ev["op"] == "CLOSE":
            out.setdefault(ev["path"], []).append((ev["pass"], ev.get("new", "")))
    return out


def monitor_fs(case: Dict[str, Any], run: Dict[str, Any], stats: C.Counter, fault_batch: bool) -> List[Dict[str, Any]]:
    """C03 / C20 / pass-protocol invariants over the recorded FS events of one run."""
    v: List[Dict[str, Any]] = []
    for m in run["monitor"]:
        v.append({"class": m["class"], "detail": m["detail"], "props": ["C06"]})
    skip_files = {rel for rel, text in case["files"].items() if "# pyrefact: skip_file" in text}
    for ev in run["events"]:
        if ev["op"] in ("TRUNC", "FLUSH", "CLOSE") and ev["path"] in skip_files:
            v.append({"class": "skip-file-written", "detail": f"{ev['path']} carries a skip_file comment but was opened for writing (pass {ev['pass']})", "props": ["C20"]})
            break
    for ev in run["events"]:
        if ev["op"] != "CLOSE":
            continue
        old, new = ev.get("old_bytes", b""), ev.get("new_bytes", b"")
        stats.inc("guard.writes_checked")
        if new == old:
            v.append({"class": "rewrote-unchanged-file", "detail": f"{ev['path']} was opened for writing although the formatted text equals its content (pass {ev['pass']})", "props": ["C03"]})
        if _parses(old):
            if not _parses(new):
                v.append({"class": "wrote-invalid-over-valid", "detail": f"{ev['path']}: a syntactically valid file was replaced by an invalid one (pass {ev['pass']})", "props": ["C03"]})
        else:
            stats.inc("guard.original_invalid_written")
    if fault_batch:
        # the guard decided against a write: a valid file of this run was left untouched although a pass ran over it
        written = {ev["path"] for ev in run["events"] if ev["op"] == "CLOSE"}
        untouched_valid = [f for f in run["tree"] if f.endswith(".py") and f not in written and _parses(case["files"].get(f, "(")) and f not in skip_files]
        if untouched_valid:
            stats.inc("fault.stage_fault_suppressed_by_guard", len(untouched_valid))
    if skip_files:
        stats.inc("optout.skip_files_checked", len(skip_files))
        for rel in skip_files:
            if run["tree"].get(rel) != case["files"][rel]:
                v.append({"class": "skip-file-changed", "detail": f"{rel} carries a skip_file comment but its bytes changed", "props": ["C20"]})
        for files, results in zip(run["pass_files"], run["pass_results"]):
            for f, r in zip(files, results):
                if f in skip_files and r:
                    v.append({"class": "skip-file-reported-changed", "detail": f"{f}: task result is truthy", "props": ["C20"]})
    # pass protocol
    if len(run["pass_files"]) > 5:
        v.append({"class": "pass-budget-exceeded", "detail": f"{len(run['pass_files'])} passes", "props": ["C09"]})
    for files, results in zip(run["pass_files"], run["pass_results"]):
        if len(files) != len(set(files)):
            v.append({"class": "file-twice-in-one-pass", "detail": str(files), "props": ["C06"]})
        if len(files) != len(results):
            v.append({"class": "results-misaligned", "detail": "", "props": ["C06"]})
    # result i belongs to file i: a task reported a change iff a write of that file was closed in that pass
    wrote = {(ev["pass"], ev["path"]) for ev in run["events"] if ev["op"] == "CLOSE"}
    for p, (files, results) in enumerate(zip(run["pass_files"], run["pass_results"]), start=1):
        if run["outcome"][0] != "ok" and p == len(run["pass_files"]):
            continue  # the pass raised: what its tasks reported was never acted upon
        for f, r in zip(files, results):
            if r is None:
                continue
            if bool(r) != ((p, f) in wrote):
                v.append({"class": "result-not-of-its-file", "detail": f"pass {p} {f}: result {r} but written={((p, f) in wrote)}", "props": ["C06"]})
    return v


def compare_runs(case: Dict[str, Any], ref: Dict[str, Any], run: Dict[str, Any], stats: C.Counter) -> List[Dict[str, Any]]:
    """C06(b): parallel == sequential."""
    v: List[Dict[str, Any]] = []
    ref_raised = ref["outcome"][0] != "ok"
    run_raised = run["outcome"][0] != "ok"
    if ref_raised:
        stats.inc("reference_raised")
        if not run_raised:
            v.append({"class": "parallel-succeeds-where-sequential-raises", "detail": f"sequential: {ref['outcome']}", "props": ["C06"]})
        return v
    diffs = []
    if run_raised:
        diffs.append(f"parallel run raised {run['outcome'][1:]} where the sequential run did not")
    changed_files = sorted(f for f in set(ref["tree"]) | set(run["tree"]) if ref["tree"].get(f) != run["tree"].get(f))
    if changed_files:
        diffs.append(f"final bytes differ for {changed_files}")
    if ref["ff_returns"] != run["ff_returns"]:
        diffs.append(f"format_files returned {run['ff_returns']} vs {ref['ff_returns']}")
    ref_rep = [sorted(zip(f, r)) for f, r in zip(ref["pass_files"], ref["pass_results"])]
    run_rep = [sorted(zip(f, r)) for f, r in zip(run["pass_files"], run["pass_results"])]
    if ref_rep != run_rep:
        diffs.append("per-pass change reports differ")
    if not diffs:
        return v
    stats.inc("divergences")
    # is it the known cross-file race?  (first divergent file's task observed other sibling bytes)
    ref_reads, run_reads = task_reads(ref), task_reads(run)
    ref_w, run_w = writes_per_pass(ref), writes_per_pass(run)
    first_pass = None
    div_files: List[str] = []
    for p in range(1, max(len(ref["pass_files"]), len(run["pass_files"])) + 1):
        fs = set(ref["pass_files"][p - 1] if p <= len(ref["pass_files"]) else []) | set(run["pass_files"][p - 1] if p <= len(run["pass_files"]) else [])
        here = []
        for f in sorted(fs):
            a = [t for pp, t in ref_w.get(f, []) if pp == p]
            b = [t for pp, t in run_w.get(f, []) if pp == p]
            if a != b:
                here.append(f)
        if here:
            first_pass, div_files = p, here
            break
    explained = False
    if first_pass is not None:
        explained = True
        for f in div_files:
            a = ref_reads.get((first_pass, f))
            b = run_reads.get((first_pass, f))
            if a is None or b is None or a == b:
                explained = False
    elif run_raised:
        # the raising task: did it read a sibling inside a write window / other bytes than in the reference?
        explained = any(ev.get("inside_write_window") for ev in run["events"] if ev["op"] == "READ")
    viol = {
        "class": "parallel-differs-from-sequential",
        "detail": "; ".join(diffs)[:500] + f" [n_cores={run.get('n_cores')}, first divergent pass={first_pass}, files={div_files}]",
        "props": ["C06"],
    }
    if explained:
        viol["finding_key"] = "e3:cross-file-read-of-concurrently-formatted-sibling"
    v.append(viol)
    return v


def protocol_check(case: Dict[str, Any], run: Dict[str, Any]) -> List[Dict[str, Any]]:
    """Per-folder pass bookkeeping: a folder is formatted in pass p+1 iff one of its
    files changed in pass p (and the budget allows); the loop ends only then."""
    v: List[Dict[str, Any]] = []
    budget = 1 if case.get("safe") else 5
    pf, pr = run["pass_files"], run["pass_results"]
    if run["outcome"][0] != "ok":
        return v
    for p in range(len(pf)):
        changed_folders = {os.path.dirname(f) for f, r in zip(pf[p], pr[p]) if r}
        if p + 1 < len(pf):
            nxt = {os.path.dirname(f) for f in pf[p + 1]}
            if nxt != changed_folders:
                v.append({"class": "pass-bookkeeping", "detail": f"pass {p + 2} formats folders {sorted(nxt)} but folders with changes in pass {p + 1} are {sorted(changed_folders)}", "props": ["C09"]})
        elif changed_folders and p + 1 < budget:
            v.append({"class": "pass-loop-stopped-early", "detail": f"stopped after pass {p + 1} of {budget} although {sorted(changed_folders)} changed", "props": ["C09"]})
    if len(pf) > budget:
        v.append({"class": "pass-budget-exceeded", "detail": f"{len(pf)} passes, budget {budget}", "props": ["C09"]})
    return v


def converge_check(case, sched, spec, run, root, stats) -> List[Dict[str, Any]]:
    """C09 through the CLI: on trees without import edges a file's pass sequence is
    x, f(x), f(f(x)), ...; after five applications a further one must be a no-op,
    and no text may come back."""
    v: List[Dict[str, Any]] = protocol_check(case, run)
    history: Dict[str, List[str]] = {rel: [text] for rel, text in case["files"].items()}
    applications = len(run["pass_files"])

    def absorb(r: Dict[str, Any]) -> None:
        for ev in r["events"]:
            if ev["op"] == "CLOSE":
                history.setdefault(ev["path"], []).append(ev.get("new", ""))

    absorb(run)
    last = run
    follow = 0
    while applications < 6 and follow < 6:
        follow += 1
        spec2 = dict(spec, keep_tree=True, sched=dict(sched, sched_seed=sched.get("sched_seed", 0) + follow, choices=None))
        nxt = C.fork_call(cli_run, (spec2,), timeout=600.0)
        stats.inc("converge.follow_up_runs")
        stats.merge(nxt["stats"])
        if nxt["outcome"][0] != "ok":
            stats.inc("observed.follow_up_run_raised")
            return v
        v += protocol_check(case, nxt)
        absorb(nxt)
        applications += max(1, len(nxt["pass_files"]))
        last = nxt
        wrote = [ev["path"] for ev in nxt["events"] if ev["op"] == "CLOSE"]
        if not wrote:
            break
    wrote_last = sorted({ev["path"] for ev in last["events"] if ev["op"] == "CLOSE"})
    if applications >= 6 and wrote_last:
        v.append({"class": "C09-not-converged-within-budget", "detail": f"after {applications} applications the files {wrote_last} still change", "props": ["C09"], "finding_key": "e3:noconv:" + C.sha([case["files"].get(f, "") for f in wrote_last])[:12]})
    for rel, texts in history.items():
        if len(set(texts)) != len(texts):
            v.append({"class": "C09-text-came-back", "detail": f"{rel}: one of its {len(texts)} successive texts occurs twice (cycle)", "props": ["C09"], "finding_key": "e3:cycle:" + C.sha(case["files"].get(rel, ""))[:12]})
    stats.inc("converge.files_followed", len(history))
    stats.inc("converge.max_writes_of_a_file", 0)
    return v


def execute(case: Dict[str, Any]) -> Dict[str, Any]:
    with C.scratch_lock(RUN_ROOT / f"{case.get('seed', 0):016x}"):
        return _execute_locked(case)


def _execute_locked(case: Dict[str, Any]) -> Dict[str, Any]:
    C.import_pyrefact()
    seed = case.get("seed", 0)
    root = str(RUN_ROOT / f"{seed:016x}")
    log = C.EventLog(seed)
    stats = C.Counter()
    violations: List[Dict[str, Any]] = []
    signatures: List[Tuple[str, bool]] = []
    fault_batch = bool(case.get("fault"))
    try:
        ref_spec = {
            "root": root, "files": case["files"], "phase1_files": case.get("phase1_files"), "other_tree_first": case.get("other_tree_first"),
            "argv": _argv(case, case["paths"], root, 1),
            "sched": {"strategy": "first", "granule": 1 << 30, "fault": case.get("fault")},
        }
        ref = C.fork_call(cli_run, (ref_spec,), timeout=600.0)
        ref["n_cores"] = 1
        log.add("ref", ref["digest"])
        stats.merge({k: v for k, v in ref["stats"].items()})
        violations += monitor_fs(case, ref, stats, fault_batch)
        if not ref["sys_path_restored"]:
            stats.inc("observed.sys_path_not_restored")
        if ref["outcome"][0] != "ok":
            stats.inc("observed.sequential_run_raised." + str(ref["outcome"][1]))
        if case["profile"] == "preserve":
            from . import e3_profiles as P

            violations += P.preserve_check(case, ref, stats)
        elif case["profile"] == "imports":
            from . import e3_profiles as P

            violations += (P.imports_check_whole_tree if case["tree_meta"].get("whole_tree") else P.imports_check)(case, ref, stats)
        for ri, s in enumerate(case["runs"]):
            spec = {
                "root": root, "files": case["files"], "phase1_files": case.get("phase1_files"), "other_tree_first": case.get("other_tree_first"),
                "argv": _argv(case, s.get("paths") or case["paths"], root, s["n_cores"]),
                "sched": dict(s, fault=case.get("fault")),
            }
            run = C.fork_call(cli_run, (spec,), timeout=600.0)
            run["n_cores"] = s["n_cores"]
            case["runs"][ri]["_choices"] = run["choices"]
            log.add("run", ri, s["n_cores"], s["strategy"], run["digest"])
            stats.merge(run["stats"])
            stats.inc("schedules")
            violations += monitor_fs(case, run, stats, fault_batch)
            if run["outcome"][0] != "ok":
                stats.inc("observed.scheduled_run_raised." + str(run["outcome"][1]))
            if not fault_batch:
                violations += compare_runs(case, ref, run, stats)
            # distinctness: the reads-from map of this schedule
            rf = sorted((k[0], k[1], tuple(v)) for k, v in task_reads(run).items())
            cross = any(v for _, _, v in rf)
            signatures.append((C.sha([sorted(case["files"].items()), rf])[:16], cross or s["n_cores"] > 1))
            if any(ev.get("inside_write_window") for ev in run["events"]):
                stats.inc("runs_with_read_inside_write_window")
            if case["profile"] == "preserve":
                from . import e3_profiles as P

                violations += P.preserve_check(case, run, stats)
            elif case["profile"] == "imports":
                from . import e3_profiles as P

                violations += (P.imports_check_whole_tree if case["tree_meta"].get("whole_tree") else P.imports_check)(case, run, stats)
            if case["profile"] == "converge" and not violations and run["outcome"][0] == "ok":
                violations += converge_check(case, s, spec, run, root, stats)
            if violations and not case.get("keep_going"):
                break
    finally:
        shutil.rmtree(root, ignore_errors=True)
    for v in violations:
        log.add("violation", v["class"], v.get("finding_key"))
    log.add("verdict", "ok" if not violations else "violations")
    return {
        "violations": violations,
        "violation": violations[0] if violations else None,
        "digest": log.digest(),
        "stats": dict(stats),
        "signatures": signatures,
        "evaluations": 1,
        "log": log.lines() if (violations or os.environ.get("VERIF_FULL_LOG")) else None,
    }


def run_seed(seed: int, **profile) -> Dict[str, Any]:
    rng = random.Random(seed)
    case = generate(rng, profile)
    case["seed"] = seed
    res = execute(case)
    res["seed"] = seed
    if res["violations"]:
        res["case"] = strip_case(case)
    if seed % 31 == 0 or res["violations"]:
        res["sample"] = {
            "profile": case["profile"], "files": {k: v[:160] for k, v in list(case["files"].items())[:4]},
            "runs": [{k: v for k, v in r.items() if not k.startswith("_") and k != "paths"} for r in case["runs"]],
        }
    return res


def strip_case(case: Dict[str, Any]) -> Dict[str, Any]:
    c = dict(case)
    runs = []
    for r in case["runs"]:
        r2 = {k: v for k, v in r.items() if not k.startswith("_")}
        if "_choices" in r:
            r2["choices"] = r["_choices"]  # the explicit schedule: replay uses no PRNG
        runs.append(r2)
    c["runs"] = runs
    return c


def shrink(case: Dict[str, Any], vclass: str, still_fails) -> Dict[str, Any]:
    case = strip_case(case)
    # 1. keep only one failing schedule
    for i in range(len(case["runs"])):
        c = dict(case)
        c["runs"] = [case["runs"][i]]
        if still_fails(c):
            case = c
            break
    # 2. drop files
    rels = sorted(case["files"])

    def with_files(keep: List[str]) -> Dict[str, Any]:
        c = dict(case)
        c["files"] = {k: case["files"][k] for k in keep}
        # path arguments naming dropped files disappear as well
        def fix(paths):
            out = [p for p in paths if p == "<ROOT>" or any(k == p[len("<ROOT>/"):] or k.startswith(p[len("<ROOT>/"):] + "/") for k in keep)]
            return out or ["<ROOT>"]
        c["paths"] = fix(case["paths"])
        c["runs"] = [dict(r, paths=fix(r.get("paths") or case["paths"])) for r in case["runs"]]
        for r in c["runs"]:
            r.pop("choices", None)  # another tree: re-draw the schedule from the run's seed
        return c

    kept = C.ddmin(rels, lambda k: bool(k) and still_fails(with_files(k)), max_tests=40)
    if kept and len(kept) < len(rels):
        case = with_files(kept)
        # re-record the explicit schedule on the smaller tree
    # 3. simpler schedule knobs
    for key, val in (("granule", 1 << 30), ("n_cores", 2), ("strategy", "first")):
        for i, r in enumerate(case["runs"]):
            if r.get(key) != val:
                c = dict(case)
                c["runs"] = [dict(x) for x in case["runs"]]
                c["runs"][i][key] = val
                c["runs"][i].pop("choices", None)
                if still_fails(c):
                    case = c
    return case


COMPONENTS = {
    "real": [
        "pyrefact.main.main / _parse_args / format_files (pass loop, per-folder bookkeeping, per-file preserve sets) / format_file (read, format, write guard) / _used_names_in_files",
        "all of format_code and every rule, in real forked worker processes with their own caches, sys.modules and import state",
        "the real scratch file system (tmpfs): every read, truncate, write and close is performed for real",
    ],
    "stub": [
        "multiprocessing.Pool -> SimPool (CPython 3.12 chunking / ordering / error semantics; which idle worker takes the next chunk and which parked worker performs its next file-system operation are seeded decisions)",
        "open / pathlib.Path.open as seen by pyrefact.main and pyrefact.tracing -> parking wrappers (perform the real operation after release; writes are flushed in granule-sized fragments)",
    ],
}


def props_of(v: Dict[str, Any]) -> List[str]:
    return v.get("props", ["C06"])


# --------------------------------------------------------------------------- stub conformance

def real_pool_run(spec: Dict[str, Any]) -> Dict[str, Any]:
    """The same CLI run with the real multiprocessing.Pool (no seams at all)."""
    main_mod = C.import_pyrefact()
    root = spec["root"]
    materialise(root, spec["files"])
    os.chdir(root)
    ff_returns: List[Any] = []
    real_ff = main_mod.format_files

    def format_files(*a, **k):
        r = real_ff(*a, **k)
        ff_returns.append(r)
        return r

    main_mod.format_files = format_files
    sys.stdin = io.StringIO("")
    try:
        rc = main_mod.main(list(spec["argv"]))
        outcome = ["ok", rc]
    except SystemExit as e:
        outcome = ["exit", str(e.code)]
    except BaseException as e:  # noqa: BLE001
        outcome = ["raised", type(e).__name__]
    return {"outcome": outcome, "ff_returns": ff_returns, "tree": read_tree(root)}


def conformance(n_trees: int = 12) -> List[str]:
    """SimPool against the thing it replaces: final tree, return value and outcome of
    the real pool (n_cores 1 and 3) equal those of SimPool under the run-to-completion
    schedule, on generated trees (base and edges profiles)."""
    problems: List[str] = []
    for i in range(n_trees):
        seed = C.derive_seed(0, "conformance", i)
        rng = random.Random(seed)
        case = generate(rng, {"profile": "edges" if i % 2 else "base", "schedules": 1})
        root = str(RUN_ROOT / f"conf{seed:016x}")
        try:
            for n in (1, 3):
                argv = _argv(case, case["paths"], root, n)
                real = C.fork_call(real_pool_run, ({"root": root, "files": case["files"], "argv": argv},), timeout=900.0)
                simr = C.fork_call(cli_run, ({"root": root, "files": case["files"], "argv": argv, "sched": {"strategy": "first", "granule": 1 << 30}},), timeout=900.0)
                for key in ("outcome", "ff_returns", "tree"):
                    a, b = real[key], simr[key]
                    if key == "outcome":
                        a, b = a[:2], b[:2]
                    if a != b:
                        problems.append(f"tree {i} n_cores={n}: {key} differs between the real pool and SimPool")
        finally:
            shutil.rmtree(root, ignore_errors=True)
    return problems
