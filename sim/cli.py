"""vsim command line: setup | check <id> --tier quick|thorough | replay <file> | selftest.

Exit codes: 0 property held (or only known findings), 1 VIOLATION printed,
2 harness error (never a verdict).
"""
from __future__ import annotations

import argparse
import importlib
import json
import os
import subprocess
import sys
import time
from pathlib import Path
from typing import Any, Dict, List, Optional

from . import core as C
from . import plans


def _pin_cwd() -> None:
    d = C.SCRATCH_ROOT / "cwd"
    d.mkdir(parents=True, exist_ok=True)
    os.chdir(d)


def engine_module(name: str):
    return importlib.import_module(f"sim.{name}")


def _run_one(task: Dict[str, Any]) -> Dict[str, Any]:
    mod = engine_module(task["engine"])
    return mod.run_seed(task["seed"], **task.get("kwargs", {}))


def _replay_one(task: Dict[str, Any]) -> Dict[str, Any]:
    mod = engine_module(task["engine"])
    return mod.execute(task["case"])


def cmd_setup(_args) -> int:
    problems = []
    try:
        C.import_pyrefact()
    except Exception as e:  # noqa: BLE001
        problems.append(f"cannot import pyrefact from {C.REPO}: {e}")
    if not C.SHM.is_dir():
        problems.append("no scratch directory")
    try:
        out = subprocess.run(
            ["setarch", os.uname().machine, "-R", "true"], capture_output=True, timeout=30
        )
        if out.returncode != 0:
            problems.append("setarch -R does not work")
    except Exception as e:  # noqa: BLE001
        problems.append(f"setarch: {e}")
    corpus = C.VERIF_DIR / "corpus" / "snippets.json"
    if not corpus.exists():
        problems.append("corpus/snippets.json missing")
    C.SCRATCH_ROOT.mkdir(parents=True, exist_ok=True)
    if problems:
        for p in problems:
            print("HARNESS-ERROR setup:", p)
        return C.EXIT_HARNESS
    print("setup ok: pyrefact from", C.REPO, "python", sys.version.split()[0])
    return 0


def _tree_hash() -> str:
    parts = []
    for p in sorted((C.REPO / "pyrefact").rglob("*.py")):
        parts.append(p.read_bytes())
    return C.sha(*parts)


def violates(prop: str, batch: Dict[str, Any], violation: Dict[str, Any]) -> bool:
    """Is this violation class a clause of `prop`?  (Engines serve several properties.)"""
    props = violation.get("props")
    if props is None:
        mod = engine_module(batch["engine"])
        props = mod.props_of(violation)
    return prop in props


def cmd_check(args) -> int:
    prop = args.property
    tier = args.tier or os.environ.get("VERIF_TIER") or "quick"
    if tier not in ("quick", "thorough"):
        tier = "quick"
    base = C.base_seed()
    t0 = time.monotonic()
    _pin_cwd()
    C.import_pyrefact()
    tree_before = _tree_hash()
    # the reference memo is keyed by the content of the tree under test: fix that key now, together with the
    # import (a key computed lazily, after somebody edited the tree, would file results of the old code under
    # the new content)
    from . import e2_history as _e2

    _e2.repo_hash()
    plan = plans.plan_for(prop, tier)
    if plan is None:
        print(f"HARNESS-ERROR no check for property {prop}")
        return C.EXIT_HARNESS
    scale = float(os.environ.get("VERIF_SCALE", "1"))
    known = C.KnownFindings()
    stats = C.Counter()
    signatures: Dict[str, int] = {}
    nontrivial_sigs = set()
    samples: List[Any] = []
    harness_errors: List[str] = []
    violations: List[Dict[str, Any]] = []
    other_prop: List[str] = []
    evaluations = 0
    components: Dict[str, Any] = {}
    per_batch = []
    known_printed = set()
    # ---- pinned cases of the listed findings: every `finding:` line of this property is shown on the tree under
    # test by re-executing a stored case (findings/<property>/*.json), whether or not the seeded batches
    # happen to run into it again
    pinned_dir = C.VERIF_DIR / "findings" / prop
    for pf in sorted(pinned_dir.glob("*.json")) if pinned_dir.is_dir() else []:
        try:
            pobj = json.loads(pf.read_text())
        except (OSError, ValueError) as e:
            harness_errors.append(f"pinned finding {pf.name}: unreadable ({e})")
            continue
        kf = known.match(prop, pobj["key"])
        if kf is None:
            continue  # no longer listed (repaired): the file is history
        try:
            pres = C.fork_call(_replay_one, ({"engine": pobj["engine"], "case": pobj["case"]},), timeout=600.0)
        except C.HarnessError as e:
            harness_errors.append(f"pinned finding {pf.name}: {e}")
            continue
        pvs = pres.get("violations", [pres["violation"]] if pres.get("violation") else [])
        stats.inc("pinned_finding_cases_run")
        if any((x.get("finding_key") or f"{pobj['engine']}:{x['class']}") == pobj["key"] for x in pvs):
            stats.inc("pinned_finding_cases_reproduced")
            if pobj["key"] not in known_printed:
                print(f"KNOWN-FINDING: property={prop} key={pobj['key']} {kf['text']}")
                known_printed.add(pobj["key"])
        else:
            print(f"NOTE pinned case {pf.name} of listed finding {pobj['key']} does not violate on this tree")
        for x in pvs:
            # anything else the pinned case shows is judged like any other violation
            xs = x.get("finding_key") or f"{pobj['engine']}:{x['class']}"
            if known.match(prop, xs) is None and violates(prop, {"engine": pobj["engine"]}, x):
                violations.append({"batch": {"engine": pobj["engine"], "label": "pinned", "timeout": 600.0}, "task": {"seed": pobj["case"].get("seed", 0)}, "violation": x, "case": pobj["case"], "log": pres.get("log")})
    for batch in plan["batches"]:
        mod = engine_module(batch["engine"])
        n = max(1, int(batch["n"] * scale))
        if batch.get("indexed"):
            n = batch["n"]  # a sweep is not scaled: every index is a fixed slice of a finite list
        tasks = [
            {
                "engine": batch["engine"],
                "seed": C.derive_seed(base, batch["engine"], batch.get("label", ""), i),
                "kwargs": dict(batch.get("kwargs", {}), **({"index": i, "of": n} if batch.get("indexed") else {})),
            }
            for i in range(n)
        ]
        bt0 = time.monotonic()
        results = C.run_batch(
            _run_one, tasks, nproc=batch.get("nproc"), timeout=batch.get("timeout", 300.0),
            budget_s=batch.get("budget_s"),
        )
        done = 0
        for task, (status, res) in zip(tasks, results):
            if status == "skipped":
                continue
            if status == "harness":
                harness_errors.append(f"{batch['engine']} seed={task['seed']}: {res}")
                continue
            done += 1
            evaluations += res.get("evaluations", 1)
            stats.merge({f"{batch.get('label', batch['engine'])}:{k}": v for k, v in res.get("stats", {}).items()})
            for sig, nontriv in res.get("signatures", [(res.get("signature"), res.get("nontrivial", True))]):
                if sig is None:
                    continue
                signatures[sig] = signatures.get(sig, 0) + 1
                if nontriv:
                    nontrivial_sigs.add(sig)
            if res.get("sample") is not None and len(samples) < 6:
                samples.append(res["sample"])
            for v in res.get("violations", [res["violation"]] if res.get("violation") else []):
                entry = {"batch": batch, "task": task, "violation": v, "case": v.get("case") or res.get("case"), "log": res.get("log")}
                if violates(prop, batch, v):
                    violations.append(entry)
                else:
                    other_prop.append(f"{v['class']} (belongs to {','.join(engine_module(batch['engine']).props_of(v))})")
        per_batch.append({"label": batch.get("label", batch["engine"]), "engine": batch["engine"], "runs": done, "wall_s": round(time.monotonic() - bt0, 2)})
        if hasattr(mod, "COMPONENTS"):
            components[batch["engine"]] = mod.COMPONENTS

    # ---- violations: known finding or VIOLATION (minimised, replayable)
    exit_code = C.EXIT_OK
    reported = 0
    new_violations = 0
    seen_new = set()
    pin_mode = os.environ.get("VERIF_PIN_FINDINGS") == "1"  # maintenance: store a case for listed findings that have none
    for entry in violations:
        v = entry["violation"]
        sig = v.get("finding_key") or f"{entry['batch']['engine']}:{v['class']}"
        kf = known.match(prop, sig)
        if kf is not None:
            if sig not in known_printed:
                print(f"KNOWN-FINDING: property={prop} key={sig} {kf['text']}")
                known_printed.add(sig)
            stats.inc("known_finding_hits")
            if pin_mode and entry.get("case") is not None:
                slug = "".join(ch if ch.isalnum() else "-" for ch in sig)[:80]
                pinned_dir.mkdir(parents=True, exist_ok=True)
                if not any(pinned_dir.glob(slug + "*.json")):
                    (pinned_dir / f"{slug}.json").write_text(json.dumps({"key": sig, "engine": entry["batch"]["engine"], "case": entry["case"], "detail": entry["violation"].get("detail", "")[:400]}, indent=1, default=str))
                    print(f"PINNED {sig} -> findings/{prop}/{slug}.json")
            continue
        new_violations += 1
        dedup = (v["class"], v.get("finding_key"))
        if dedup in seen_new or reported >= 3:
            continue
        seen_new.add(dedup)
        reported += 1
        path = report_violation(prop, entry, tier)
        print(f"VIOLATION property={prop} replay={path}")
        print(f"  class={v['class']} detail={v.get('detail', '')[:300]}")
        exit_code = C.EXIT_VIOLATION
    if os.environ.get("VERIF_LIST_VIOLATIONS") == "1":
        # diagnosis aid: every violation of the run (not only the first of each class), digits folded
        import collections
        import re

        tally = collections.Counter(
            (e["violation"]["class"], e["violation"].get("finding_key"), re.sub(r"\d+", "N", e["violation"].get("detail", ""))[:220]) for e in violations
        )
        for (vc, fk, det), n in tally.most_common(60):
            print(f"  LIST x{n} class={vc} key={fk} {det}")
    wall = time.monotonic() - t0
    if harness_errors:
        for h in harness_errors[:5]:
            print("HARNESS-ERROR", h[:2000])
        # a harness error is never a verdict; but a check that could not run is not a pass either
        if exit_code == C.EXIT_OK and len(harness_errors) > max(2, evaluations // 50):
            exit_code = C.EXIT_HARNESS
    # Exceptions out of simulated runs are observations (totality is not claimed) - but an exception class
    # the unchanged tree never shows usually means the code under test used an interface a stub lacks.
    expected_exc = {"UnicodeDecodeError", "IndexError", "RecursionError", "SyntaxError", "IndentationError", "ValueError"}
    for k, v in sorted(stats.items()):
        if "run_raised." in k:
            exc = k.rsplit(".", 1)[1]
            if exc not in expected_exc:
                print(f"WARNING simulated runs raised {exc} x{v} ({k}): possible gap between a stub and what it replaces")
                if v >= max(5, evaluations // 4) and exit_code == C.EXIT_OK:
                    print("HARNESS-ERROR too many simulated runs died with an unexpected exception; the check did not really run")
                    exit_code = C.EXIT_HARNESS
    zero_probes = [p for p in plan.get("probes", []) if not any(k.endswith(p) and v for k, v in stats.items())]
    for p in zero_probes:
        print(f"WARNING probe never fired: {p}")
    for o in sorted(set(other_prop))[:5]:
        print("NOTE violation of another property seen (not judged by this check):", o)
    runs_per_hour = int(evaluations / wall * 3600) if wall > 0 else 0
    coverage = {
        "evaluations": evaluations,
        "distinct_nontrivial": len(nontrivial_sigs),
        "distinct_total": len(signatures),
        "rule": plan["rule"],
        "samples": samples[:4] or [{"note": "no sample recorded"}],
        "runs_per_hour": runs_per_hour,
        "simulated_time_steps": stats_total(stats, "steps"),
        "faults_fired": {k: v for k, v in sorted(stats.items()) if ":fault." in k},
        "probes": {k: v for k, v in sorted(stats.items()) if ":fault." not in k},
        "probes_never_fired": zero_probes,
        "batches": per_batch,
        "components": components,
        "harness_errors": len(harness_errors),
        "known_finding_hits": stats.get("known_finding_hits", 0),
        "exhaustive": False,
    }
    if _tree_hash() != tree_before:
        # the sources under test changed while the check ran: subject, reference and memoised
        # references may come from different versions - nothing of this run can be believed
        import shutil

        from . import e2_history

        shutil.rmtree(e2_history.MEMO_ROOT, ignore_errors=True)
        print("HARNESS-ERROR the tree under test changed during the run; reference memo purged, run again")
        return C.EXIT_HARNESS
    C.write_evidence(prop, tier, base, coverage, wall, new_violations, assumptions=plan.get("assumptions", ()))
    print(
        f"{prop} tier={tier} seed={base} runs={evaluations} distinct_nontrivial={len(nontrivial_sigs)} "
        f"violations={new_violations} known={stats.get('known_finding_hits', 0)} harness_errors={len(harness_errors)} wall={wall:.1f}s"
    )
    return exit_code


def stats_total(stats: Dict[str, int], suffix: str) -> int:
    return sum(v for k, v in stats.items() if k.endswith(":" + suffix))


def report_violation(prop: str, entry: Dict[str, Any], tier: str) -> Path:
    """Minimise (same violation class must persist, each attempt replayed in a
    fresh fork) and write the replay file."""
    batch, task, v, case = entry["batch"], entry["task"], entry["violation"], entry["case"]
    mod = engine_module(batch["engine"])
    vclass = v["class"]
    key = v.get("finding_key")

    shrink_deadline = time.monotonic() + float(os.environ.get("VERIF_SHRINK_BUDGET_S", "150"))

    def still_fails(c: Dict[str, Any]) -> bool:
        if time.monotonic() > shrink_deadline:
            return False  # out of minimisation budget: keep what we have (it still replays)
        try:
            r = C.fork_call(_replay_one, ({"engine": batch["engine"], "case": c},), timeout=batch.get("timeout", 300.0))
        except C.HarnessError:
            return False
        vs = r.get("violations", [r["violation"]] if r.get("violation") else [])
        return any(x["class"] == vclass and (key is None or x.get("finding_key") == key) for x in vs)

    minimised = case
    replays = None
    if case is not None and os.environ.get("VERIF_NO_SHRINK") != "1":
        try:
            if still_fails(case):
                replays = True
                if hasattr(mod, "shrink"):
                    minimised = mod.shrink(case, vclass, still_fails)
            else:
                replays = False
        except Exception as e:  # noqa: BLE001
            print("HARNESS-ERROR shrink failed:", e)
    final = None
    if minimised is not None:
        try:
            final = C.fork_call(_replay_one, ({"engine": batch["engine"], "case": minimised},), timeout=batch.get("timeout", 300.0))
        except C.HarnessError as e:
            final = {"error": str(e)}
    obj = {
        "engine": batch["engine"],
        "property": prop,
        "seed": task["seed"],
        "base_seed": C.base_seed(),
        "tier": tier,
        "label": batch.get("label"),
        "kwargs": batch.get("kwargs", {}),
        "violation": {k: v[k] for k in v if k != "case"},
        "replays": replays,
        "case": minimised,
        "digest": (final or {}).get("digest"),
        "log": (final or {}).get("log") or entry.get("log"),
    }
    return C.write_replay(prop, task["seed"], obj)


def cmd_replay(args) -> int:
    obj = C.read_replay(os.path.abspath(args.path))  # before the working directory is pinned
    _pin_cwd()
    C.import_pyrefact()
    res = C.fork_call(_replay_one, ({"engine": obj["engine"], "case": obj["case"]},), timeout=600.0)
    vs = res.get("violations", [res["violation"]] if res.get("violation") else [])
    want = obj["violation"]["class"]
    print("digest", res.get("digest"), "(recorded", obj.get("digest"), ")")
    for line in (res.get("log") or [])[-40:]:
        print("  |", line)
    hit = [x for x in vs if x["class"] == want]
    if hit:
        kf = C.KnownFindings().match(obj["property"], hit[0].get("finding_key") or f"{obj['engine']}:{want}")
        if kf is not None:
            print(f"KNOWN-FINDING: property={obj['property']} key={hit[0].get('finding_key')} (this replay reproduces a listed finding)")
        print(f"VIOLATION property={obj['property']} replay={args.path}")
        print(f"  class={want} detail={hit[0].get('detail', '')[:500]}")
        if obj.get("digest") and res.get("digest") != obj["digest"]:
            print("HARNESS-ERROR replay digest differs from the recorded one")
            return C.EXIT_HARNESS
        return C.EXIT_VIOLATION
    print("replay did not reproduce", want, "- got", [x["class"] for x in vs])
    return C.EXIT_OK


def cmd_selftest(args) -> int:
    """Determinism: every engine's seeds give identical digests in a fresh
    interpreter under another harness PYTHONHASHSEED and worker count."""
    from . import selftest

    return selftest.main(args)


def cmd_digests(args) -> int:
    """Print seed -> digest lines for a batch (used by the selftest)."""
    _pin_cwd()
    C.import_pyrefact()
    tasks = [
        {"engine": args.engine, "seed": C.derive_seed(C.base_seed(), args.engine, "selftest", i), "kwargs": json.loads(args.kwargs)}
        for i in range(args.n)
    ]
    results = C.run_batch(_run_one, tasks, nproc=args.nproc, timeout=300.0)
    for task, (status, res) in zip(tasks, results):
        d = res.get("digest") if status == "ok" else f"HARNESS:{str(res)[:80]}"
        print(task["seed"], d)
    return 0


def main(argv: Optional[List[str]] = None) -> int:
    ap = argparse.ArgumentParser(prog="vsim")
    sub = ap.add_subparsers(dest="cmd", required=True)
    sub.add_parser("setup")
    p = sub.add_parser("check")
    p.add_argument("property")
    p.add_argument("--tier", default=None)
    p = sub.add_parser("replay")
    p.add_argument("path")
    p = sub.add_parser("selftest")
    p.add_argument("--engine", default=None)
    p.add_argument("--n", type=int, default=24)
    p = sub.add_parser("digests")
    p.add_argument("engine")
    p.add_argument("--n", type=int, default=24)
    p.add_argument("--nproc", type=int, default=None)
    p.add_argument("--kwargs", default="{}")
    args = ap.parse_args(argv)
    try:
        return {
            "setup": cmd_setup,
            "check": cmd_check,
            "replay": cmd_replay,
            "selftest": cmd_selftest,
            "digests": cmd_digests,
        }[args.cmd](args)
    except C.HarnessError as e:
        print("HARNESS-ERROR", e)
        return C.EXIT_HARNESS


if __name__ == "__main__":
    sys.exit(main())
