"""Profiles `preserve` (C08) and `imports` (C18) of the E3 pool-sim: project
generators and oracles.  The runs themselves are ordinary E3 runs (real CLI,
SimPool, seeded schedules)."""
from __future__ import annotations

import ast
import os
import random
import sys
from typing import Any, Dict, List, Optional, Set, Tuple

from . import core as C

# =========================================================================== C08 preserve

def gen_preserve_tree(rng: random.Random) -> Dict[str, Any]:
    """Library modules (formatted) with definitions that some rule would delete,
    rename or move (unused, mis-cased, duplicate, self-less methods, static
    methods), and client modules (passed with --preserve) that reference a drawn
    subset of them by from-import (plain / aliased / unused), module attribute and
    attribute access."""
    n_libs = rng.randint(1, 3)
    n_clients = rng.randint(1, 3)
    files: Dict[str, str] = {}
    libs: List[Dict[str, Any]] = []
    in_pkg = rng.random() < 0.3
    if in_pkg:
        files["vslpkg/__init__.py"] = ""
    for k in range(n_libs):
        name = f"vsl{k}_lib"
        d: Dict[str, Any] = {"name": name, "funcs": [], "classes": {}, "vars": []}
        parts: List[str] = []
        if rng.random() < 0.5:
            parts.append("import os\n")
        nf = rng.randint(2, 5)
        for j in range(nf):
            style = rng.choice(["snake", "Camel", "_private", "snake", "mixedCase"])
            fn = {"snake": f"helper_{k}_{j}", "Camel": f"HelperFunc{k}x{j}", "_private": f"_hidden_{k}_{j}", "mixedCase": f"doThing{k}x{j}"}[style]
            body = rng.choice([
                "    return x + {j}\n", "    y = x * {j}\n    return y\n", "    if x > {j}:\n        return 1\n    else:\n        return 2\n",
                "    out = []\n    for i in range(x):\n        out.append(i * {j})\n    return out\n",
            ]).format(j=j + 1)
            # coroutines are functions too: 'async def' with a name some rule would rename
            is_async = rng.random() < 0.2
            if is_async:
                fn = {"snake": f"fetch_{k}_{j}", "Camel": f"FetchData{k}x{j}", "_private": f"_fetch_{k}_{j}", "mixedCase": f"fetchData{k}x{j}"}[style]
            parts.append(f"{'async ' if is_async else ''}def {fn}(x):\n{body}")
            d["funcs"].append(fn)
        if rng.random() < 0.5 and d["funcs"]:
            # a duplicate of an existing function under another name
            src_fn = d["funcs"][0]
            dup = f"copy_of_{k}"
            first = [p for p in parts if p.startswith((f"def {src_fn}(", f"async def {src_fn}("))][0]
            parts.append(first.replace(f"def {src_fn}(", f"def {dup}(", 1))
            d["funcs"].append(dup)
        for c in range(rng.randint(0, 2)):
            cn = rng.choice([f"Widget{k}x{c}", f"gadget_{k}_{c}"])
            methods = []
            body = []
            if rng.random() < 0.5:
                body.append(f"    attr_{c} = {c + 3}\n")
            for m in range(rng.randint(1, 3)):
                mk = rng.choice(["uses_self", "no_self", "static", "cls", "async_self", "camel_self"])
                mn = f"method_{k}_{c}_{m}"
                if mk == "async_self":
                    mn = rng.choice([f"sendRequest{k}x{c}x{m}", mn])
                    body.append(f"    async def {mn}(self, x):\n        self.last = x\n        return x\n")
                elif mk == "camel_self":
                    mn = f"describeSelf{k}x{c}x{m}"
                    body.append(f"    def {mn}(self, x):\n        self.last = x\n        return x\n")
                elif mk == "uses_self":
                    body.append(f"    def {mn}(self, x):\n        self.last = x\n        return x\n")
                elif mk == "no_self":
                    body.append(f"    def {mn}(self, x):\n        return x * 2\n")
                elif mk == "static":
                    body.append(f"    @staticmethod\n    def {mn}(x):\n        return x + 1\n")
                else:
                    body.append(f"    @classmethod\n    def {mn}(cls, x):\n        return x - 1\n")
                methods.append(mn)
            parts.append(f"class {cn}:\n" + "\n".join(body))
            d["classes"][cn] = methods
        for v in range(rng.randint(0, 3)):
            vn = rng.choice([f"someVar{k}x{v}", f"CONSTANT_{k}_{v}", f"lower_var_{k}_{v}"])
            parts.append(f"{vn} = {v + 10}\n")
            d["vars"].append(vn)
        if d["vars"] and rng.random() < 0.6:
            parts.append(f"def read_vars_{k}():\n    return [" + ", ".join(d["vars"]) + "]\n\n\nprint(read_vars_" + str(k) + "())\n")
        # a module variable that only comes into being through `global` inside a function
        d["global_vars"] = {}
        if rng.random() < 0.35:
            gv, cf = f"SETTINGS_{k}", f"configure_{k}"
            parts.append(f"def {cf}():\n    global {gv}\n    {gv} = dict(level={k})\n")
            d["funcs"].append(cf)
            d["global_vars"][gv] = cf
        # the library itself mentions one of its own names as an attribute of something else
        # (obj.render next to def render): its own mention must not cancel what other files need
        if d["funcs"] and rng.random() < 0.5:
            n_attr = rng.choice(d["funcs"] + d["vars"]) if d["vars"] else rng.choice(d["funcs"])
            parts.append(f"def touch_{k}(obj):\n    return obj.{n_attr}\n\n\nprint(touch_{k})\n")
        # some internal use so not everything is unused
        if d["funcs"] and rng.random() < 0.7:
            used = rng.sample(d["funcs"], rng.randint(1, len(d["funcs"])))
            parts.append("def main():\n" + "".join(f"    print({u}(3))\n" for u in used) + "\n\nif __name__ == \"__main__\":\n    main()\n")
        rel = f"vslpkg/{name}.py" if in_pkg else f"{name}.py"
        d["rel"] = rel
        d["import"] = f"vslpkg.{name}" if in_pkg else name
        files[rel] = "\n\n".join(p.rstrip("\n") + "\n" for p in parts)
        libs.append(d)
    clients: List[str] = []
    for c in range(n_clients):
        lines: List[str] = []
        refs: List[str] = []
        setup: List[str] = []
        for lib in rng.sample(libs, rng.randint(1, len(libs))):
            imp = lib["import"]
            alias = f"m{c}_{lib['name']}"
            used_module = False
            for gv, cf in lib["global_vars"].items():
                if rng.random() < 0.6:
                    if not any(l == f"import {imp}" for l in lines):
                        lines.append(f"import {imp}")
                    setup.append(f"{imp}.{cf}()")
                    refs.append(f"{imp}.{gv}")
            names = lib["funcs"] + list(lib["classes"]) + lib["vars"]
            for nm in rng.sample(names, rng.randint(1, min(4, len(names)))):
                form = rng.choice(["from", "from", "from_as", "from_unused", "modattr", "modattr_as"])
                if form == "from":
                    lines.append(f"from {imp} import {nm}")
                    refs.append(nm)
                elif form == "from_as":
                    lines.append(f"from {imp} import {nm} as renamed_{c}_{nm}")
                    refs.append(f"renamed_{c}_{nm}")
                elif form == "from_unused":
                    lines.append(f"from {imp} import {nm}  # re-exported")
                elif form == "modattr":
                    if not any(l == f"import {imp}" for l in lines):
                        lines.append(f"import {imp}")
                    if nm in lib["vars"] and rng.random() < 0.5:
                        # the client only ever *writes* the library's variable (configuration style): a reference
                        # by module attribute all the same
                        setup.append(rng.choice([f"{imp}.{nm} = 3", f"{imp}.{nm} += 2"]))
                    else:
                        refs.append(f"{imp}.{nm}")
                else:
                    if not used_module:
                        lines.append(f"import {imp} as {alias}")
                        used_module = True
                    refs.append(f"{alias}.{nm}")
                if nm in lib["classes"] and lib["classes"][nm] and rng.random() < 0.6:
                    m = rng.choice(lib["classes"][nm])
                    if form in ("from",):
                        refs.append(f"{nm}.{m}")
        # some from-imports sit in nested positions: inside try/except ImportError, an if block, a function
        nested: List[str] = []
        flat: List[str] = []
        for l in dict.fromkeys(lines):
            if l.startswith("from ") and rng.random() < 0.3:
                where = rng.choice(["try", "if", "func"])
                if where == "try":
                    # (a bare `raise` here makes fix_raise_missing_from crash with AttributeError on the
                    # unchanged tree - a totality matter, not generated)
                    bound_t = l.split(" import ")[1].split("#")[0].strip().split(" as ")[-1]
                    nested.append(f"try:\n    {l}\nexcept ImportError:\n    {bound_t} = None\n")
                elif where == "if":
                    nested.append(f"if REFERENCES is not None:\n    {l}\n")
                else:
                    bound = l.split(" import ")[1].split("#")[0].strip().split(" as ")[-1]
                    nested.append(f"def loader_{c}_{len(nested)}():\n    {l}\n    return {bound}\n")
                    refs[:] = [r for r in refs if r.split(".")[0] != bound]
            else:
                flat.append(l)
        needs_flag = any(n.startswith("if REFERENCES") for n in nested)
        body = "\n".join(flat) + "\n\n" + ("REFERENCES = []\n" if needs_flag else "") + "\n".join(nested) + "\n" + "".join(f"{l}\n" for l in dict.fromkeys(setup)) + "REFERENCES = [\n" + "".join(f"    {r},\n" for r in dict.fromkeys(refs)) + "]\n"
        rel = f"{rng.choice(['vsc', 'vsc', 'vsz'])}{c}_client.py"  # before or after the libraries in sorted order
        place = rng.random()
        if place < 0.22:
            # several preserved files with one base name in different plain folders
            rel = f"vsapps/{rng.choice(['export', 'report', 'tool'])}{c}/main.py"
        elif place < 0.36:
            # a preserved file with the base name of a formatted library file
            cand = f"vstests/{rng.choice(libs)['name']}.py"
            if cand not in files:
                rel = cand
        files[rel] = body
        clients.append(rel)
    return {"files": files, "libs": libs, "clients": clients}


def preserve_paths(rng: random.Random, tree: Dict[str, Any]) -> Tuple[List[str], List[str]]:
    libs = ["<ROOT>/" + l["rel"] for l in tree["libs"]]
    clients = ["<ROOT>/" + c for c in tree["clients"]]
    r = rng.random()
    if r < 0.5:
        paths, preserve = libs, clients
    elif r < 0.7:
        paths, preserve = ["<ROOT>"], clients  # clients are formatted too, and preserved
    else:
        paths, preserve = ["<ROOT>"], ["<ROOT>"]  # pyrefact pkg --preserve pkg
    rng.shuffle(paths)
    return paths, preserve


def _defs(text: str, loose: bool = False) -> Dict[str, str]:
    """name -> kind for top-level definitions; 'Class.member' for class members.
    Variables: plain assignments at module level (definition sites) - with
    loose=True (used for the text *after* formatting) any binding of the name at
    module scope counts (x = open() may have become `with open() as x`)."""
    out: Dict[str, str] = {}
    try:
        tree = ast.parse(text)
    except (SyntaxError, ValueError):
        return out
    for node in tree.body:
        if isinstance(node, (ast.FunctionDef, ast.AsyncFunctionDef)):
            out[node.name] = "function"
        elif isinstance(node, ast.ClassDef):
            out[node.name] = "class"
            for sub in node.body:
                if isinstance(sub, (ast.FunctionDef, ast.AsyncFunctionDef)):
                    out[f"{node.name}.{sub.name}"] = "method"
                elif isinstance(sub, ast.Assign):
                    for t in sub.targets:
                        if isinstance(t, ast.Name):
                            out[f"{node.name}.{t.id}"] = "class-variable"
        elif isinstance(node, (ast.Assign, ast.AnnAssign)):
            targets = node.targets if isinstance(node, ast.Assign) else [node.target]
            for t in targets:
                if isinstance(t, ast.Name):
                    out[t.id] = "variable"
    # module variables bound through `global` inside a function
    for fn in ast.walk(tree):
        if isinstance(fn, (ast.FunctionDef, ast.AsyncFunctionDef)):
            declared = {n for g in ast.walk(fn) if isinstance(g, ast.Global) for n in g.names}
            if declared:
                for n in ast.walk(fn):
                    if isinstance(n, ast.Name) and isinstance(n.ctx, ast.Store) and n.id in declared and n.id not in out:
                        out[n.id] = "variable"
    if not loose:
        return out
    # variables: any name bound at module scope by whatever statement (assignment, with ... as,
    # for target, nested in if / try blocks) - not inside function or class bodies
    def walk_module_scope(nodes):
        for n in nodes:
            if isinstance(n, (ast.FunctionDef, ast.AsyncFunctionDef, ast.ClassDef, ast.Lambda)):
                continue
            yield n
            yield from walk_module_scope(ast.iter_child_nodes(n))

    for n in walk_module_scope(tree.body):
        if isinstance(n, ast.Name) and isinstance(n.ctx, ast.Store) and n.id not in out:
            out[n.id] = "variable"
    return out


def referenced_by_clients(case: Dict[str, Any], exclude: Optional[str] = None) -> Dict[str, Set[str]]:
    """Independent of pyrefact's own name collection (plain ast): per library
    import name -> names the preserved files reference by from-import, module
    attribute or attribute access ('Class.member' for attribute chains)."""
    lib_imports = {l["import"]: l for l in case["tree_meta"]["libs"]}
    out: Dict[str, Set[str]] = {imp: set() for imp in lib_imports}
    for rel in case["tree_meta"]["preserved_files"]:
        if rel == exclude:
            continue
        text = case["files"].get(rel, "")
        try:
            tree = ast.parse(text)
        except (SyntaxError, ValueError):
            continue
        modalias: Dict[str, str] = {}
        fromalias: Dict[str, Tuple[str, str]] = {}
        for node in ast.walk(tree):
            if isinstance(node, ast.ImportFrom) and node.module in lib_imports:
                for a in node.names:
                    if a.name != "*":
                        out[node.module].add(a.name)
                        fromalias[a.asname or a.name] = (node.module, a.name)
            elif isinstance(node, ast.Import):
                for a in node.names:
                    if a.name in lib_imports:
                        modalias[a.asname or a.name] = a.name
        for node in ast.walk(tree):
            if isinstance(node, ast.Attribute):
                chain = []
                cur: Any = node
                while isinstance(cur, ast.Attribute):
                    chain.append(cur.attr)
                    cur = cur.value
                chain.reverse()
                base = None
                if isinstance(cur, ast.Name):
                    base = cur.id
                # dotted module: pkg.mod.name
                dotted = ".".join(([base] if base else []) + chain)
                for imp in lib_imports:
                    if base is not None and (dotted.startswith(imp + ".") and (base == imp.split(".")[0]) and imp in modalias.values()):
                        rest = dotted[len(imp) + 1 :].split(".")
                        out[imp].add(rest[0])
                        if len(rest) > 1:
                            out[imp].add(f"{rest[0]}.{rest[1]}")
                if base in modalias and "." not in modalias[base]:
                    out[modalias[base]].add(chain[0])
                    if len(chain) > 1:
                        out[modalias[base]].add(f"{chain[0]}.{chain[1]}")
                elif base in modalias:
                    out[modalias[base]].add(chain[0])
                    if len(chain) > 1:
                        out[modalias[base]].add(f"{chain[0]}.{chain[1]}")
                if base in fromalias:
                    imp, orig = fromalias[base]
                    out[imp].add(f"{orig}.{chain[0]}")
    return out


def preserve_check(case: Dict[str, Any], run: Dict[str, Any], stats: C.Counter) -> List[Dict[str, Any]]:
    v: List[Dict[str, Any]] = []
    if run["outcome"][0] != "ok":
        stats.inc("observed.preserve_run_raised")
        return v
    for lib in case["tree_meta"]["libs"]:
        refs = referenced_by_clients(case, exclude=lib["rel"])[lib["import"]]
        before = _defs(case["files"][lib["rel"]])
        after = _defs(run["tree"].get(lib["rel"], ""), loose=True)
        for name in sorted(refs):
            if name not in before:
                continue
            stats.inc("preserve.referenced_definitions_checked")
            stats.inc(f"preserve.kind.{before[name]}")
            if "." in name and name.split(".")[0] not in refs:
                continue
            if after.get(name) != before[name]:
                how = "deleted or renamed" if name not in after else f"turned into a {after[name]}"
                v.append({
                    "class": "preserved-definition-lost",
                    "detail": f"{lib['rel']}: {before[name]} {name} is referenced from a preserved file but was {how}",
                    "props": ["C08"],
                    "finding_key": f"e3:preserve:{before[name]}:{_ref_form(case, lib, name)}",
                })
    if not v:
        v += _import_clients(case, run, stats)
    return v


def _ref_form(case: Dict[str, Any], lib: Dict[str, Any], name: str) -> str:
    """How the preserved files refer to the name (for the finding signature)."""
    forms = set()
    short = name.split(".")[-1]
    for rel in case["tree_meta"]["preserved_files"]:
        for line in case["files"].get(rel, "").splitlines():
            if line.strip().startswith("from ") and f"import {short}" in line:
                forms.add("from-import-as" if " as " in line else ("from-import-unused" if "re-exported" in line else "from-import"))
            elif f".{short}" in line:
                forms.add("attribute")
    return "+".join(sorted(forms)) or "?"


def _import_clients(case: Dict[str, Any], run: Dict[str, Any], stats: C.Counter) -> List[Dict[str, Any]]:
    """In a fork: every preserved file that imported fine against the original
    tree still imports against the final tree (ImportError / AttributeError /
    NameError = a referenced name is gone).  Values are not compared."""
    def probe(files: Dict[str, str]) -> Dict[str, str]:
        import importlib
        import tempfile

        d = tempfile.mkdtemp(prefix="vsimimp", dir=str(C.SCRATCH_ROOT))
        res: Dict[str, str] = {}
        try:
            for rel, text in files.items():
                p = os.path.join(d, rel)
                os.makedirs(os.path.dirname(p), exist_ok=True)
                with open(p, "w") as f:
                    f.write(text)
            sys.path.insert(0, d)
            sys.dont_write_bytecode = True
            for rel in case["tree_meta"]["clients"]:
                mod = rel[:-3].replace("/", ".")
                try:
                    importlib.import_module(mod)
                    res[rel] = "ok"
                except (ImportError, AttributeError, NameError) as e:
                    res[rel] = f"{type(e).__name__}: {e}"
                except BaseException as e:  # noqa: BLE001
                    res[rel] = f"other:{type(e).__name__}"
        finally:
            import shutil

            shutil.rmtree(d, ignore_errors=True)
        return res

    v: List[Dict[str, Any]] = []
    try:
        before = C.fork_call(probe, (case["files"],), timeout=120)
        after = C.fork_call(probe, (run["tree"],), timeout=120)
    except C.HarnessError:
        stats.inc("observed.client_import_probe_failed")
        return v
    for rel in case["tree_meta"]["clients"]:
        if before.get(rel) != "ok":
            stats.inc("preserve.client_not_importable_before")
            continue
        stats.inc("preserve.clients_imported")
        if after.get(rel, "").startswith(("ImportError", "AttributeError", "NameError", "ModuleNotFoundError")):
            v.append({
                "class": "preserved-client-broken",
                "detail": f"{rel} imported fine against the original tree but raises {after[rel][:200]} against the formatted one",
                "props": ["C08"],
                "finding_key": "e3:preserve-client:" + after[rel].split(":")[0],
            })
    return v


# =========================================================================== C18 imports

def gen_imports_tree(rng: random.Random) -> Dict[str, Any]:
    """Static libraries in several on-disk layouts (plain module, package with
    __init__, module defining __all__, re-export chains up to depth 3, aliases) and
    client modules importing from them in every statement form and position."""
    files: Dict[str, str] = {}
    objs: List[Tuple[str, str]] = []  # (module import name, object name)
    tag = rng.randrange(1000)
    base = f"vsi{tag}"
    # plain module
    files[f"{base}_plain.py"] = (
        "def plain_func(x):\n    return ('plain_func', x)\n\n\nclass PlainClass:\n    pass\n\n\nPLAIN_CONST = object()\n\n\ndef _plain_private():\n    return 0\n"
    )
    objs += [(f"{base}_plain", n) for n in ("plain_func", "PlainClass", "PLAIN_CONST")]
    # module with __all__
    files[f"{base}_all.py"] = (
        "import os\n\n__all__ = ['shown_func', 'SHOWN_CONST']\n\n\ndef shown_func():\n    return 'shown'\n\n\ndef hidden_func():\n    return 'hidden'\n\n\nSHOWN_CONST = object()\n"
    )
    objs += [(f"{base}_all", n) for n in ("shown_func", "SHOWN_CONST", "hidden_func")]
    # package with __init__ re-exporting from a submodule
    files[f"{base}_pkg/__init__.py"] = "from .inner import inner_func, InnerClass\n"
    files[f"{base}_pkg/inner.py"] = "def inner_func():\n    return 'inner'\n\n\nclass InnerClass:\n    pass\n\n\ndef inner_other():\n    return 'other'\n"
    objs += [(f"{base}_pkg", "inner_func"), (f"{base}_pkg", "InnerClass"), (f"{base}_pkg.inner", "inner_other"), (f"{base}_pkg.inner", "inner_func")]
    # re-export chain: chain3 -> chain2 -> chain1 (depth 3), with an alias on the way
    files[f"{base}_chain1.py"] = "def deep_func():\n    return 'deep'\n\n\nDEEP_CONST = object()\n"
    files[f"{base}_chain2.py"] = f"from {base}_chain1 import deep_func, DEEP_CONST as MID_CONST\n"
    files[f"{base}_chain3.py"] = f"from {base}_chain2 import deep_func\nfrom {base}_chain2 import MID_CONST\n"
    objs += [(f"{base}_chain3", "deep_func"), (f"{base}_chain3", "MID_CONST"), (f"{base}_chain2", "deep_func"), (f"{base}_chain1", "DEEP_CONST")]
    # star re-export
    files[f"{base}_starhub.py"] = f"from {base}_plain import *\nfrom {base}_all import *\n"
    objs += [(f"{base}_starhub", "plain_func"), (f"{base}_starhub", "shown_func")]
    # a module that imports names and rebinds them further down (wrapped function, new constant):
    # what it exports is the *last* binding, not the imported object
    files[f"{base}_rebind.py"] = (
        f"from {base}_plain import plain_func, PLAIN_CONST\n\n\ndef _wrap(func):\n    def inner(*args):\n        return func(*args)\n\n    return inner\n\n\n"
        "plain_func = _wrap(plain_func)\nPLAIN_CONST = object()\n"
    )
    objs += [(f"{base}_rebind", "plain_func"), (f"{base}_rebind", "PLAIN_CONST")]
    # three star imports in a row in front of the defining module
    files[f"{base}_star3.py"] = "def far_func():\n    return 'far'\n\n\nFAR_CONST = object()\n"
    files[f"{base}_star2.py"] = f"from {base}_star3 import *\n"
    files[f"{base}_star1.py"] = f"from {base}_star2 import *\n"
    objs += [(f"{base}_star1", "far_func"), (f"{base}_star1", "FAR_CONST"), (f"{base}_star2", "far_func")]
    # ---- layouts drawn per run (round 4): the ways a module can spell its export list, underscore
    # names, export lists that come out empty, relative re-exports inside a package, a package
    # directory next to a stale plain module of the same name, clients inside a package
    all_form = rng.choice(["aug_list", "aug_tuple", "append", "extend_list", "extend_tuple", "tuple", "concat", "annotated", "list", "computed"])
    all_lines = {
        "aug_list": "__all__ = ['aug_a']\n__all__ += ['aug_b']\n",
        "aug_tuple": "__all__ = ['aug_a']\n__all__ += ('aug_b',)\n",
        "append": "__all__ = ['aug_a']\n__all__.append('aug_b')\n",
        "extend_list": "__all__ = ['aug_a']\n__all__.extend(['aug_b'])\n",
        "extend_tuple": "__all__ = ['aug_a']\n__all__.extend(('aug_b',))\n",
        "tuple": "__all__ = ('aug_a', 'aug_b')\n",
        "concat": "__all__ = ['aug_a'] + ['aug_b']\n",
        "annotated": "__all__: list = ['aug_a', 'aug_b']\n",
        "list": "__all__ = ['aug_a', 'aug_b']\n",
        "computed": "",
    }[all_form]
    files[f"{base}_allaug.py"] = all_lines + "\n\ndef aug_a():\n    return 'aug_a'\n\n\ndef aug_b():\n    return 'aug_b'\n\n\ndef aug_hidden():\n    return 'aug_hidden'\n"
    if all_form == "computed":
        # an export list that is computed at import time (every public name): nothing static to read
        files[f"{base}_allaug.py"] += "\n\n__all__ = [n for n in dir() if not n.startswith('_')]\n"
    # a module that defines aug_hidden itself and is star-imported *before* allaug: python binds this one
    files[f"{base}_augdecoy.py"] = "def aug_hidden():\n    return 'decoy'\n\n\ndef decoy_only():\n    return 'decoy only'\n"
    # underscore names: exported only when __all__ lists them
    files[f"{base}_under1.py"] = "__all__ = ['_shared_priv', 'under1_pub']\n\n\ndef _shared_priv():\n    return 'under1'\n\n\ndef under1_pub():\n    return 'pub1'\n"
    files[f"{base}_under2.py"] = "def _shared_priv():\n    return 'under2'\n\n\ndef under2_pub():\n    return 'pub2'\n"
    # an export list that is empty: the module exports nothing although it defines plain_func
    files[f"{base}_emptyall.py"] = "__all__ = []\n\n\ndef plain_func(x):\n    return ('registry', x)\n\n\ndef empty_only():\n    return 0\n"
    # package whose plain submodule re-exports by relative import
    files[f"{base}_rpkg/__init__.py"] = ""
    files[f"{base}_rpkg/impl.py"] = "def rel_func():\n    return 'rel'\n\n\nREL_CONST = object()\n"
    files[f"{base}_rpkg/mid.py"] = rng.choice(["from .impl import rel_func, REL_CONST\n", "from .impl import rel_func\nfrom .impl import REL_CONST\n", f"from {base}_rpkg.impl import rel_func\nfrom .impl import REL_CONST\n", "from . import impl\nfrom .impl import *\n"])
    # optional decoy: a top level module with the name of the package's submodule
    if rng.random() < 0.5:
        files["impl.py"] = "def rel_func():\n    return 'top level decoy'\n\n\nREL_CONST = object()\n"
    # package directory next to a stale plain module of the same name (python imports the package)
    files[f"{base}_dpkg/__init__.py"] = ""
    files[f"{base}_dpkg/codec/__init__.py"] = "def encode():\n    return 'package codec'\n"
    files[f"{base}_dpkg/codec.py"] = f"from {base}_dpkg.legacy import encode\n"
    files[f"{base}_dpkg/legacy.py"] = "def encode():\n    return 'legacy codec'\n"
    objs += [(f"{base}_allaug", "aug_a"), (f"{base}_allaug", "aug_b"), (f"{base}_under1", "under1_pub"), (f"{base}_under1", "_shared_priv"),
             (f"{base}_rpkg.mid", "rel_func"), (f"{base}_rpkg.mid", "REL_CONST"), (f"{base}_dpkg.codec", "encode"), (f"{base}_rpkg.impl", "rel_func")]
    stdlib_nested = [("importlib.util", "find_spec"), ("email.utils", "parseaddr"), ("json.decoder", "JSONDecoder"),
                     ("os.path", "join"), ("xml.dom.minidom", "parseString"), ("collections.abc", "Mapping"), ("urllib.parse", "urlparse")]
    clients: List[str] = []
    for c in range(rng.randint(1, 4)):
        lines: List[str] = []
        refs: List[str] = []
        late: List[str] = []
        if rng.random() < 0.4:
            mod, name = rng.choice(stdlib_nested)
            late.append(f"def late_{c}_{len(late)}():\n    from {mod} import {name}\n    return {name}\n")
        n_imp = rng.randint(1, 5)
        star_used = False
        picked = rng.sample(objs, min(n_imp, len(objs)))
        if rng.random() < 0.9:
            # one source per bound name (two imports of one name from different modules shadow each other;
            # that pattern is kept rare, it is known finding K6)
            seen_n: Dict[str, str] = {}
            picked = [(m, n) for m, n in picked if seen_n.setdefault(n, m) == m]
        for mod, name in picked:
            form = rng.choice(["from", "from", "from_as", "import", "import_as", "star", "dup", "in_func", "stacked"])
            if mod.endswith(("_star1", "_star2", "_allaug")) and not star_used and rng.random() < 0.6:
                form = "star"
            if form == "star" and (star_used or name.startswith("_") or (mod.endswith("_all") and name == "hidden_func")):
                form = "from"
            if form == "from":
                lines.append(f"from {mod} import {name}")
                refs.append(name)
            elif form == "from_as":
                lines.append(f"from {mod} import {name} as alias_{c}_{name}")
                refs.append(f"alias_{c}_{name}")
            elif form == "import":
                lines.append(f"import {mod}")
                refs.append(f"{mod}.{name}")
            elif form == "import_as":
                a = f"modalias_{c}_{len(lines)}"
                lines.append(f"import {mod} as {a}")
                refs.append(f"{a}.{name}")
            elif form == "star":
                star_used = True
                lines.append(f"from {mod} import *")
                refs.append(name)
            elif form == "dup":
                lines.append(f"from {mod} import {name}")
                lines.append(f"from {mod} import {name}")
                refs.append(name)
            elif form == "stacked":
                lines.append(f"from {mod} import {name}")
                lines.append(f"import os, sys")
                refs.append(name)
                refs.append("os.sep")
                refs.append("sys.path")
            else:  # import inside a function (moved to module level by the tool)
                late.append(f"def late_{c}_{len(late)}():\n    from {mod} import {name}\n    return {name}\n")
        # two star imports whose export lists decide who binds a name (orders both ways)
        scen = rng.random()
        if scen < 0.12:
            lines += [f"from {base}_under1 import *", f"from {base}_under2 import *"]
            refs += ["_shared_priv", "under2_pub"] + (["under1_pub"] if rng.random() < 0.5 else [])
        elif scen < 0.24:
            lines += [f"from {base}_plain import *", f"from {base}_emptyall import *"]
            refs += ["plain_func"]
        elif scen < 0.36 and all_form != "computed":
            lines += [f"from {base}_augdecoy import *", f"from {base}_allaug import *"]
            refs += ["aug_hidden", "aug_a", "aug_b"]
        elif scen < 0.46:
            # star imports in the alternative branches of a module level try / except: only one of them runs
            lines += [f"try:\n    from {base}_starhub import *\nexcept ImportError:\n    from {base}_plain import *"]
            refs += ["plain_func", "PlainClass"]
        if rng.random() < 0.4:
            lines.append(rng.choice(["import os.path", "import json", "from collections import OrderedDict", "import unused_never_there_hopefully_not" if False else "import re"]))
            if lines[-1] == "import os.path":
                refs.append("os.path.join")
            elif lines[-1] == "import json":
                pass  # unused import: removed by the tool
            elif lines[-1].startswith("from collections"):
                refs.append("OrderedDict")
            else:
                refs.append("re.compile")
        rng.shuffle(lines)
        # unique references, but keep names bound only once to avoid rebinding ambiguity
        seen_names = set()
        uniq_refs = []
        for r in refs:
            if r not in seen_names:
                seen_names.add(r)
                uniq_refs.append(r)
        text = "\n".join(lines) + "\n\n\n" + "\n\n".join(late) + ("\n\n" if late else "")
        text += "def use_them():\n    return [\n" + "".join(f"        {r},\n" for r in uniq_refs) + "    ]\n"
        has_ml = rng.random() < 0.5 and bool(uniq_refs)
        if has_ml:
            text += f"\n\nMODULE_LEVEL = {rng.choice(uniq_refs)}\n"
        # keep the code alive: without a use the tool (rightly) deletes unused functions and imports
        text += "\n\nif __name__ == \"__main__\":\n    print(use_them())\n"
        if has_ml:
            text += "    print(MODULE_LEVEL)\n"
        for li in range(len(late)):
            text += f"    print(late_{c}_{li}())\n"
        try:
            ast.parse(text)
        except SyntaxError:
            continue
        rel = f"{base}_client{c}.py"
        files[rel] = text
        clients.append(rel)
    if rng.random() < 0.35:
        # a client that lives inside a package and imports its sibling relatively; optionally a decoy
        # top level module with the sibling's name (the tool sees only 'csib' in node.module)
        files[f"{base}_cpk/__init__.py"] = ""
        files[f"{base}_cpk/csib.py"] = "def sib_func():\n    return 'sibling'\n\n\nSIB_CONST = object()\n"
        if rng.random() < 0.6:
            files["csib.py"] = rng.choice([
                f"from {base}_plain import plain_func as sib_func\nfrom {base}_plain import PLAIN_CONST as SIB_CONST\n",
                "def sib_func():\n    return 'decoy'\n\n\nSIB_CONST = object()\n",
                "__all__ = ['sib_func']\n\n\ndef sib_func():\n    return 'decoy'\n",
            ])
        form = rng.choice(["from", "star", "module", "from_as", "two"])
        imp, refs = {
            "from": ("from .csib import sib_func, SIB_CONST", ["sib_func", "SIB_CONST"]),
            "star": ("from .csib import *", ["sib_func", "SIB_CONST"]),
            "module": ("from . import csib", ["csib.sib_func", "csib.SIB_CONST"]),
            "from_as": ("from .csib import sib_func as sf", ["sf"]),
            "two": ("from .csib import sib_func\nfrom .csib import SIB_CONST", ["sib_func", "SIB_CONST"]),
        }[form]
        text = imp + "\n\n\ndef use_them():\n    return [\n" + "".join(f"        {r},\n" for r in refs) + "    ]\n"
        text += "\n\nif __name__ == \"__main__\":\n    print(use_them())\n"
        rel = f"{base}_cpk/relclient.py"
        files[rel] = text
        clients.append(rel)
    if not clients:
        files[f"{base}_client0.py"] = f"from {base}_plain import plain_func\n\n\ndef use_them():\n    return [plain_func]\n\n\nif __name__ == \"__main__\":\n    print(use_them())\n"
        clients.append(f"{base}_client0.py")
    return {"files": files, "clients": clients, "base": base}


def _exec_client_pair(arg: Tuple[Dict[str, str], str, str, str]) -> Dict[str, Any]:
    """Runs in a fork with the library tree on sys.path: execute the original and
    the final text of one client as two modules of the same process, so imported
    objects are shared and identity is literal."""
    files, rel, before_text, after_text = arg
    import tempfile
    import types

    d = tempfile.mkdtemp(prefix="vsimexec", dir=str(C.SCRATCH_ROOT))
    res: Dict[str, Any] = {"status": "ok", "problems": []}
    try:
        for r, text in files.items():
            p = os.path.join(d, r)
            os.makedirs(os.path.dirname(p), exist_ok=True)
            with open(p, "w") as f:
                f.write(text)
        sys.path.insert(0, d)
        sys.dont_write_bytecode = True
        os.chdir(d)

        def run(text: str, name: str):
            mod = types.ModuleType(name)
            mod.__file__ = os.path.join(d, rel)
            if "/" in rel:  # a client inside a package: relative imports resolve against its package
                mod.__package__ = os.path.dirname(rel).replace("/", ".")
            exec(compile(text, mod.__file__, "exec"), mod.__dict__)
            return mod

        try:
            mb = run(before_text, "client_before")
        except BaseException as e:  # noqa: BLE001
            return {"status": "before-raised", "detail": f"{type(e).__name__}: {e}"}
        try:
            ma = run(after_text, "client_after")
        except BaseException as e:  # noqa: BLE001
            return {"status": "after-raised", "detail": f"{type(e).__name__}: {e}"}
        tree_a = ast.parse(after_text)
        # which names does the original module bind more than once through import statements, to
        # different objects (explicit or through a star import)?  Re-ordering or narrowing such
        # imports changes which binding wins: known finding K6
        ns: Dict[str, Any] = {"__name__": "client_probe"}
        shadowed = set()
        def _only_imports(n_: ast.AST) -> bool:
            # a module level try whose branches hold nothing but imports binds names like the imports themselves
            return isinstance(n_, ast.Try) and all(
                isinstance(c_, (ast.Import, ast.ImportFrom, ast.Pass))
                for c_ in [*n_.body, *(m_ for h_ in n_.handlers for m_ in h_.body), *n_.orelse, *n_.finalbody]
            )

        for node in ast.parse(before_text).body:
            if isinstance(node, (ast.Import, ast.ImportFrom)) or _only_imports(node):
                ids_before = {k: id(v) for k, v in ns.items()}
                try:
                    exec(compile(ast.Module(body=[node], type_ignores=[]), "<import>", "exec"), ns)
                except BaseException:  # noqa: BLE001
                    continue
                for k, v in ns.items():
                    if k in ids_before and ids_before[k] != id(v) and not k.startswith("__"):
                        shadowed.add(k)
        res["shadowed"] = sorted(shadowed)
        # the functions' return values: the objects the module's code actually reaches through its
        # names.  Definitions are matched by position (the tool may rename them outside safe mode).
        tree_b = ast.parse(before_text)
        fb_names = [n.name for n in tree_b.body if isinstance(n, ast.FunctionDef)]
        fa_names = [n.name for n in tree_a.body if isinstance(n, ast.FunctionDef)]
        if len(fb_names) != len(fa_names):
            res["status"] = "shape-changed"
            return res
        for nb, na in zip(fb_names, fa_names):
            fb, fa = getattr(mb, nb, None), getattr(ma, na, None)
            if fb is None or fa is None:
                continue
            try:
                vb = fb()
            except BaseException:  # noqa: BLE001
                continue
            try:
                va = fa()
            except BaseException as e:  # noqa: BLE001
                res["problems"].append(f"{nb}() raises {type(e).__name__}: {e} after formatting")
                continue
            if isinstance(vb, list) and isinstance(va, list):
                if len(vb) != len(va) or any(x is not y for x, y in zip(vb, va)):
                    res["problems"].append(f"{nb}() returns other objects after formatting")
            elif vb is not va and vb != va:
                res["problems"].append(f"{nb}() returns another object after formatting")

        def simple_assigns(tree):
            return [n.targets[0].id for n in tree.body if isinstance(n, ast.Assign) and len(n.targets) == 1 and isinstance(n.targets[0], ast.Name)]

        ab, aa = simple_assigns(tree_b), simple_assigns(tree_a)
        if len(ab) == len(aa):
            for nb, na in zip(ab, aa):
                if nb in mb.__dict__ and na in ma.__dict__ and ma.__dict__[na] is not mb.__dict__[nb]:
                    res["problems"].append(f"module level variable {nb} is bound to another object after formatting")
        return res
    finally:
        import shutil

        shutil.rmtree(d, ignore_errors=True)


def imports_check(case: Dict[str, Any], run: Dict[str, Any], stats: C.Counter) -> List[Dict[str, Any]]:
    v: List[Dict[str, Any]] = []
    if run["outcome"][0] != "ok":
        stats.inc("observed.imports_run_raised." + str(run["outcome"][1]))
        return v
    libs = {r: t for r, t in case["files"].items() if r not in case["tree_meta"]["clients"]}
    for rel in case["tree_meta"]["clients"]:
        before, after = case["files"][rel], run["tree"].get(rel, "")
        # libraries must be untouched in this shape
        stats.inc("imports.clients_checked")
        if before != after:
            stats.inc("imports.clients_changed")
            b_imps = sorted(l.strip() for l in before.splitlines() if l.strip().startswith(("import ", "from ")))
            a_imps = sorted(l.strip() for l in after.splitlines() if l.strip().startswith(("import ", "from ")))
            if b_imps != a_imps:
                stats.inc("imports.import_statements_changed")
        try:
            res = C.fork_call(_exec_client_pair, ((libs, rel, before, after),), timeout=120)
        except C.HarnessError as e:
            stats.inc("observed.exec_probe_failed")
            continue
        if res["status"] == "before-raised":
            stats.inc("imports.client_not_executable_before")
            continue
        if res["status"] == "after-raised":
            viol = {"class": "import-broken", "detail": f"{rel}: executes before formatting, raises {res['detail'][:200]} after", "props": ["C18"]}
            key = _known_import_pattern(before, after, res["detail"])  # K4 at module level
            if key:
                viol["finding_key"] = key
            v.append(viol)
            continue
        for p in res["problems"][:3]:
            viol = {"class": "import-rebinds-name", "detail": f"{rel}: {p}", "props": ["C18"]}
            key = _known_import_pattern(before, after, p)
            if not key and res.get("shadowed") and ("other objects" in p or "another object" in p):
                key = "e3:imports:same-name-imported-from-two-modules-reordered"
            if key:
                viol["finding_key"] = key
            v.append(viol)
    for rel, text in libs.items():
        if run["tree"].get(rel) != text:
            v.append({"class": "unformatted-library-changed", "detail": f"{rel} was not passed to the tool but changed", "props": ["C18"]})
    return v


def _known_import_pattern(before: str, after: str, problem: str) -> Optional[str]:
    """Signature of known finding K4: a star import is dropped although a name it
    provides is used at module level / in another function, because the same name
    is also imported locally inside some function (get_undefined_variables treats
    an import anywhere in the file as binding the name everywhere)."""
    import re

    # K8: a star import in the fallback branch of a module level try / except is moved to module level
    # (move_imports_to_toplevel) when the same module is also imported by name at module level, and the two are
    # then merged: the fallback always runs, aliases of the explicit import are lost
    try:
        tb8 = ast.parse(before)
    except SyntaxError:
        tb8 = None
    if tb8 is not None:
        fallback_stars = {
            n.module for t in tb8.body if isinstance(t, ast.Try) for n in [*t.body, *(m for h in t.handlers for m in h.body)]
            if isinstance(n, ast.ImportFrom) and any(a.name == "*" for a in n.names)
        }
        explicit = {n.module for n in ast.walk(tb8) if isinstance(n, ast.ImportFrom) and not any(a.name == "*" for a in n.names)}
        if fallback_stars & explicit:
            return "e3:imports:fallback-star-import-moved-out-of-except-branch-and-merged"
    if "returns other objects" in problem or "bound to another object" in problem:
        # K6: the same name imported at module level from two different modules: sorting the imports
        # changes which binding comes last
        try:
            tb0 = ast.parse(before)
        except SyntaxError:
            return None
        sources: Dict[str, Set[str]] = {}
        for n in tb0.body:
            if isinstance(n, ast.ImportFrom):
                for a in n.names:
                    if a.name != "*":
                        sources.setdefault(a.asname or a.name, set()).add(n.module or "")
        if any(len(v) > 1 for v in sources.values()):
            return "e3:imports:same-name-imported-from-two-modules-reordered"
        return None
    m = re.search(r"NameError: name '(\w+)' is not defined", problem)
    if not m:
        return None
    name = m.group(1)
    try:
        tb, ta = ast.parse(before), ast.parse(after)
    except SyntaxError:
        return None
    star_before = {n.module for n in tb.body if isinstance(n, ast.ImportFrom) and any(a.name == "*" for a in n.names)}
    star_after = {n.module for n in ta.body if isinstance(n, ast.ImportFrom) and any(a.name == "*" for a in n.names)}
    toplevel_bound_after = {(a.asname or a.name).split(".")[0] for n in ta.body if isinstance(n, (ast.Import, ast.ImportFrom)) for a in n.names}
    local_import = False
    for fn in ast.walk(tb):
        if isinstance(fn, (ast.FunctionDef, ast.AsyncFunctionDef)):
            for n in ast.walk(fn):
                if isinstance(n, (ast.Import, ast.ImportFrom)) and any((a.asname or a.name) == name for a in n.names):
                    local_import = True
    if star_before - star_after and local_import and name not in toplevel_bound_after:
        return "e3:imports:star-import-dropped-while-name-also-imported-inside-a-function"
    return None


def rewired_tree(files: Dict[str, str], base: str) -> Dict[str, str]:
    """The same module names, another layout: who defines and who re-exports is
    swapped (used for an earlier run over *another* project tree in the same
    process - nothing of it may leak into the run that is judged)."""
    out = dict(files)
    out[f"{base}_chain3.py"] = "def deep_func():\n    return 'other tree'\n\n\nMID_CONST = object()\nDEEP_CONST = object()\n"
    out[f"{base}_chain2.py"] = f"from {base}_chain3 import deep_func, MID_CONST\n"
    out[f"{base}_chain1.py"] = f"from {base}_chain2 import deep_func\nfrom {base}_chain3 import DEEP_CONST\n"
    out[f"{base}_plain.py"] = f"from {base}_all import shown_func as plain_func\nfrom {base}_all import SHOWN_CONST as PLAIN_CONST\n\n\nclass PlainClass:\n    pass\n"
    out[f"{base}_starhub.py"] = "def plain_func(x):\n    return x\n\n\ndef shown_func():\n    return 0\n\n\nclass PlainClass:\n    pass\n\n\nPLAIN_CONST = object()\nSHOWN_CONST = object()\n"
    out[f"{base}_star1.py"] = "def far_func():\n    return 'near'\n\n\nFAR_CONST = object()\n"
    return out


# --------------------------------------------------------------------------- C18 shape (ii): whole tree, safe mode

def _token_probe(arg: Tuple[Dict[str, str], List[str]]) -> Dict[str, Any]:
    """Runs in a fork: import every client of the tree and describe the objects its
    functions return by origin token (module, qualified name) - comparable across
    processes, unlike identity."""
    files, clients = arg
    import importlib
    import tempfile

    d = tempfile.mkdtemp(prefix="vsimtok", dir=str(C.SCRATCH_ROOT))
    out: Dict[str, Any] = {}
    try:
        for r, text in files.items():
            p = os.path.join(d, r)
            os.makedirs(os.path.dirname(p), exist_ok=True)
            with open(p, "w") as f:
                f.write(text)
        sys.path.insert(0, d)
        sys.dont_write_bytecode = True
        os.chdir(d)

        def token(o: Any) -> str:
            mod = getattr(o, "__module__", None)
            qn = getattr(o, "__qualname__", None)
            if isinstance(o, type(sys)):
                return f"module:{o.__name__}"
            if qn:
                return f"{mod}:{qn}"
            return f"value:{type(o).__name__}"

        for rel in clients:
            try:
                m = importlib.import_module(rel[:-3].replace("/", "."))
            except BaseException as e:  # noqa: BLE001
                out[rel] = f"raised:{type(e).__name__}:{e}"
                continue
            toks: List[Any] = []
            tree = ast.parse(files[rel])
            for fn in [n.name for n in tree.body if isinstance(n, ast.FunctionDef)]:
                try:
                    v = getattr(m, fn)()
                    toks.append([token(x) for x in v] if isinstance(v, list) else token(v))
                except BaseException as e:  # noqa: BLE001
                    toks.append(f"raised:{type(e).__name__}:{e}")
            out[rel] = toks
    finally:
        import shutil

        shutil.rmtree(d, ignore_errors=True)
    return out


def imports_check_whole_tree(case: Dict[str, Any], run: Dict[str, Any], stats: C.Counter) -> List[Dict[str, Any]]:
    """Libraries and clients were formatted together in safe mode (which keeps the
    libraries' surface): every client still resolves its names to objects of the
    same origin."""
    v: List[Dict[str, Any]] = []
    if run["outcome"][0] != "ok":
        stats.inc("observed.imports_run_raised." + str(run["outcome"][1]))
        return v
    clients = case["tree_meta"]["clients"]
    try:
        before = C.fork_call(_token_probe, ((case["files"], clients),), timeout=120)
        after = C.fork_call(_token_probe, ((run["tree"], clients),), timeout=120)
    except C.HarnessError:
        stats.inc("observed.exec_probe_failed")
        return v
    for rel in clients:
        b, a = before.get(rel), after.get(rel)
        stats.inc("imports.whole_tree_clients_checked")
        if isinstance(b, str) or any(isinstance(x, str) and x.startswith("raised:") for x in (b or [])):
            stats.inc("imports.client_not_executable_before")
            continue
        if a != b:
            detail = f"{rel}: objects reached through its names changed origin after formatting the whole tree in safe mode: before={str(b)[:200]} after={str(a)[:200]}"
            viol = {"class": "import-rebinds-name-whole-tree", "detail": detail, "props": ["C18"]}
            key = _known_import_pattern(case["files"][rel], run["tree"].get(rel, ""), str(a))
            if key:
                viol["finding_key"] = key
            v.append(viol)
    return v
