"""E2 history-sim: one long-lived interpreter with all of pyrefact's caches is
the *system*; API calls are the operations; the same call in a pristine fork of
the zygote (same knobs, same observing wrappers, no history) is the reference.

Real code: everything in pyrefact.  Stub: nothing (wrappers only observe).
Faults: cache-size knobs, eviction pressure, aborted calls (SimAbort raised at
the k-th crossing of a seam), abandoned / interleaved lazy iterators.

A *case* = {knobs, ops:[...]} is explicit and JSON-able; execute(case) is a pure
function of it and the code.
"""
from __future__ import annotations

import ast
import functools
import io
import json
import os
import pickle
import random
import re
import sys
import traceback
from pathlib import Path
from typing import Any, Dict, List, Optional, Tuple

from . import core as C
from . import gen

ADDR_RE = re.compile(r"0x[0-9a-fA-F]+")
E2_CWD = C.SCRATCH_ROOT / "e2cwd"
MEMO_ROOT = C.SCRATCH_ROOT / "refmemo"

STATIC_TREE = {
    "vs_lib.py": "import os\nfrom pathlib import Path\n\n\ndef lib_func(x):\n    return x + 1\n\n\nclass LibClass:\n    pass\n\n\nLIB_CONST = 3\n",
    "vs_all.py": "__all__ = ['shown']\n\n\ndef shown():\n    return 1\n\n\ndef hidden():\n    return 2\n",
    "vs_reexport.py": "from vs_lib import lib_func, LibClass\nfrom vs_all import shown as shown_alias\n",
    "vs_pkg/__init__.py": "from .mod import pkg_func\n",
    "vs_pkg/mod.py": "def pkg_func():\n    return 'pkg'\n\n\ndef other_func():\n    return 'other'\n",
    # a package whose __init__ re-exports through a relative star import (what a static reading of
    # __init__.py finds and what the imported package object holds are not the same thing)
    "vs_pkg2/__init__.py": "from .shapes import *\n",
    "vs_pkg2/shapes.py": "def area(x):\n    return x * x\n\n\ndef perimeter(x):\n    return 4 * x\n",
    # a module that star-imports an unparsable one and defines something itself: tracing a name that is
    # not its own makes the tool raise SyntaxError out of the call; a later call must not notice
    "vs_helpers.py": "from vs_legacy import *\n\n\ndef bar():\n    return 'bar'\n\n\ndef baz():\n    return 'baz'\n",
    "vs_legacy.py": "def broken(:\n    pass\n",
    # mutual fallback: the last binding of `dumps` in each module is an import from the other
    "vs_fast.py": '"""Accelerated helpers, falling back to the pure python ones."""\ntry:\n    from _vs_speedups import dumps\nexcept ImportError:\n    from vs_pure import dumps\n',
    "vs_pure.py": '"""Pure python helpers; the accelerated versions are preferred when available."""\nimport json\n\n\ndef dumps(obj):\n    return json.dumps(obj, sort_keys=True)\n\n\ntry:\n    from vs_fast import dumps\nexcept ImportError:\n    pass\n',
}


# A second project directory: the same module names, another layout (who defines and who
# re-exports is swapped).  Operations carry the tree they run in; the subject changes its
# working directory between operations, the reference runs the operation in a fresh fork
# inside the same tree.  Nothing of an earlier tree may leak into a later one.
E2_CWD_B = C.SCRATCH_ROOT / "e2cwd_b"
STATIC_TREE_B = dict(STATIC_TREE)
STATIC_TREE_B.update({
    "vs_reexport.py": "def lib_func(x):\n    return x - 1\n\n\nclass LibClass:\n    pass\n\n\ndef shown_alias():\n    return 0\n",
    "vs_lib.py": "from vs_reexport import lib_func, LibClass\n\nLIB_CONST = 4\n",
    "vs_all.py": "from vs_reexport import shown_alias as shown\n\n\ndef hidden():\n    return 2\n",
})
TREE_DIRS = {"A": E2_CWD, "B": E2_CWD_B}


def ensure_static_tree() -> None:
    for root, tree in ((E2_CWD, STATIC_TREE), (E2_CWD_B, STATIC_TREE_B)):
        for rel, text in tree.items():
            p = root / rel
            if not p.exists() or p.read_text() != text:
                p.parent.mkdir(parents=True, exist_ok=True)
                p.write_text(text)


class SimAbort(BaseException):
    """Cancellation injected at a seam (KeyboardInterrupt-like: not an Exception)."""


# --------------------------------------------------------------------------- repo identity (memo key)

_REPO_HASH: Optional[str] = None


def repo_hash() -> str:
    global _REPO_HASH
    if _REPO_HASH is None:
        parts = []
        for p in sorted((C.REPO / "pyrefact").rglob("*.py")):
            parts.append(p.name)
            parts.append(p.read_bytes())
        parts.append(sys.version)
        parts.append("hashseed=" + os.environ.get("PYTHONHASHSEED", "random"))  # references are per hash seed
        parts.append(json.dumps([STATIC_TREE, STATIC_TREE_B], sort_keys=True))
        parts.append(Path(__file__).read_bytes())  # wrappers are part of the reference's environment
        _REPO_HASH = C.sha(*parts)[:20]
    return _REPO_HASH


# --------------------------------------------------------------------------- knobs

KNOB_TABLES: Dict[str, Dict[str, Any]] = {
    "default": {},
    "unbounded": {"parse": None, "group": None},
    "small": {"parse": 3, "group": 3, "template": 50},
    "tiny": {"parse": 1, "group": 1, "template": 2, "charnos": 1, "valid": 2, "trace": 2},
    "mixed": {"parse": None, "group": 2, "template": 10000},
}

_CACHED = {
    "parse": ("pyrefact.core", "parse"),
    "group": ("pyrefact.core", "_group_nodes_in_scope"),
    "template": ("pyrefact.core", "compile_template"),
    "charnos": ("pyrefact.core", "_get_line_start_charnos"),
    "valid": ("pyrefact.core", "is_valid_python"),
    "trace": ("pyrefact.tracing", "trace_origin"),
}


def apply_knobs(name: str) -> None:
    table = KNOB_TABLES[name]
    for key, size in table.items():
        modname, attr = _CACHED[key]
        mod = sys.modules[modname]
        fn = getattr(mod, attr)
        raw = getattr(fn, "__wrapped__", None)
        if raw is None:
            continue  # the tree under test no longer caches this function
        setattr(mod, attr, functools.lru_cache(maxsize=size)(raw))


# --------------------------------------------------------------------------- structural dumps

def tree_dump(tree: ast.AST) -> str:
    return ast.dump(tree, include_attributes=True)


def struct_dump(obj: Any, depth: int = 0) -> Any:
    if depth > 60:
        return "<deep>"
    if isinstance(obj, ast.AST):
        d = {}
        for k, v in sorted(vars(obj).items()):
            d[k] = struct_dump(v, depth + 1)
        return (type(obj).__name__, tuple(d.items()))
    if isinstance(obj, (list, tuple)):
        return (type(obj).__name__, tuple(struct_dump(x, depth + 1) for x in obj))
    if isinstance(obj, (set, frozenset)):
        return ("set", tuple(sorted(repr(struct_dump(x, depth + 1)) for x in obj)))
    if isinstance(obj, dict):
        return ("dict", tuple(sorted((repr(k), repr(struct_dump(v, depth + 1))) for k, v in obj.items())))
    if isinstance(obj, type):
        return ("type", obj.__name__)
    return ADDR_RE.sub("0xX", repr(obj))


# --------------------------------------------------------------------------- observing wrappers

class Observer:
    """Installed in the subject *and* in every reference fork, so that subject
    and reference differ by history only."""

    def __init__(self) -> None:
        self.findings: List[Dict[str, Any]] = []
        self.stats = C.Counter()
        self.rule_stack: List[str] = []
        self.handed: List[Tuple[str, ast.AST, str]] = []  # (src, tree, rule at hand-out)
        self.handed_marks: List[int] = []
        self.fresh_dump: Dict[str, str] = {}
        self.abort: Optional[Tuple[str, int]] = None
        self.crossings = C.Counter()
        self.op_index = -1
        self.parsed_in_op: Dict[str, None] = {}
        self.templates_in_op: List[Tuple[tuple, dict]] = []
        self.in_check = False

    # -- seams
    def cross(self, seam: str) -> None:
        if self.abort is None or self.in_check:
            return
        if self.abort[0] != seam:
            return
        self.crossings.inc(seam)
        if self.crossings[seam] == self.abort[1]:
            self.stats.inc("fault.abort_fired")
            self.stats.inc(f"fault.abort_at.{seam}")
            raise SimAbort(f"abort at {seam} #{self.abort[1]}")

    def report(self, cls: str, key: str, detail: str) -> None:
        if len(self.findings) < 20 and not any(f["finding_key"] == key for f in self.findings):
            self.findings.append({"class": cls, "finding_key": key, "detail": detail[:600], "op": self.op_index})

    def fresh(self, src: str) -> Optional[str]:
        d = self.fresh_dump.get(src)
        if d is None:
            try:
                d = tree_dump(ast.parse(src))
            except (SyntaxError, ValueError, RecursionError):
                d = "<unparsable>"
            if len(self.fresh_dump) > 5000:
                self.fresh_dump.clear()
            self.fresh_dump[src] = d
        return d

    def install(self) -> None:
        import pyrefact.core as pcore
        import pyrefact.formatting as pformatting
        import pyrefact.processing as pprocessing

        obs = self

        # O2: what core.parse serves on a hit is what a fresh parse of its key gives
        cached_parse = pcore.parse

        def parse(source_code):
            obs.cross("core.parse")
            info = getattr(cached_parse, "cache_info", None)
            before = info().hits if info else 0
            tree = cached_parse(source_code)
            if obs.in_check:
                return tree
            hit = bool(info) and info().hits > before
            rule = obs.rule_stack[-1] if obs.rule_stack else "<top>"
            if hit:
                obs.stats.inc("parse.hits")
                obs.in_check = True
                try:
                    if id(tree) not in obs.bad_trees and tree_dump(tree) != obs.fresh(source_code):
                        obs.bad_trees[id(tree)] = tree
                        obs.report(
                            "O2-parse-cache-unfaithful",
                            f"O2:mutated-by:{rule}",
                            f"core.parse served a cached tree that differs from a fresh parse of its key; every tree handed out earlier was verified at the exit of the rule that got it, so it was mutated during {rule}; key={source_code[:200]!r}",
                        )
                finally:
                    obs.in_check = False
            else:
                obs.stats.inc("parse.misses")
            obs.handed.append((source_code, tree, rule))
            obs.parsed_in_op[source_code] = None
            return tree

        for a in ("cache_info", "cache_clear", "__wrapped__"):
            if hasattr(cached_parse, a):
                setattr(parse, a, getattr(cached_parse, a))
        parse.__name__ = "parse"
        obs.cached_parse = cached_parse
        obs.bad_trees: Dict[int, ast.AST] = {}
        pcore.parse = parse

        # O3: compiled templates
        cached_ct = pcore.compile_template

        def compile_template(*args, **kwargs):
            info = getattr(cached_ct, "cache_info", None)
            before = info().hits if info else 0
            res = cached_ct(*args, **kwargs)
            if obs.in_check:
                return res
            if info and info().hits > before:
                obs.stats.inc("template.hits")
                raw = getattr(cached_ct, "__wrapped__", None)
                if raw is not None:
                    obs.in_check = True
                    try:
                        try:
                            fresh = raw(*args, **kwargs)
                        except Exception:  # noqa: BLE001
                            fresh = None
                        if fresh is not None and struct_dump(fresh) != struct_dump(res):
                            rule = obs.rule_stack[-1] if obs.rule_stack else "<top>"
                            obs.report(
                                "O3-template-cache-unfaithful",
                                f"O3:{str(args[0])[:60] if args else ''}",
                                f"core.compile_template served a cached template that differs from a fresh compilation (during {rule}); args={str(args)[:200]}",
                            )
                    finally:
                        obs.in_check = False
            return res

        for a in ("cache_info", "cache_clear", "__wrapped__"):
            if hasattr(cached_ct, a):
                setattr(compile_template, a, getattr(cached_ct, a))
        pcore.compile_template = compile_template

        # O4: node groups per scope
        cached_grp = pcore._group_nodes_in_scope

        def _group_nodes_in_scope(scope):
            info = getattr(cached_grp, "cache_info", None)
            before = info().hits if info else 0
            res = cached_grp(scope)
            if info and info().hits > before and not obs.in_check:
                obs.stats.inc("group.hits")
                freshg: Dict[type, List[int]] = {}
                for node in ast.walk(scope):
                    freshg.setdefault(type(node), []).append(id(node))
                got = {k: [id(n) for n in v] for k, v in res.items()}
                if got != freshg and not obs.bad_trees:
                    # Observation only: with every parse tree verified faithful (O2), a stale grouping can
                    # only belong to a rule-private node that the rule changed after walking it; that
                    # cache is not one the statement names and the effect can not outlive the call.
                    obs.stats.inc("observed.stale_group_of_rule_private_node")
            return res

        for a in ("cache_info", "cache_clear", "__wrapped__"):
            if hasattr(cached_grp, a):
                setattr(_group_nodes_in_scope, a, getattr(cached_grp, a))
        pcore._group_nodes_in_scope = _group_nodes_in_scope

        # abort seams
        real_unparse = pcore.unparse

        def unparse(node):
            obs.cross("core.unparse")
            return real_unparse(node)

        pcore.unparse = unparse
        real_do = pprocessing._do_rewrite

        def _do_rewrite(*a, **k):
            obs.cross("processing._do_rewrite")
            return real_do(*a, **k)

        pprocessing._do_rewrite = _do_rewrite
        real_black = pformatting.format_with_black

        def format_with_black(*a, **k):
            obs.cross("formatting.format_with_black")
            return real_black(*a, **k)

        pformatting.format_with_black = format_with_black

        # rule tracking: localises a mutation to the rule during which it happened
        from . import rules as R

        for name, (fn, _p) in R.harvest().items():
            modname, attr = name.split(".")
            mod = sys.modules[f"pyrefact.{modname}"]
            setattr(mod, attr, self._track(name, fn))

    def _track(self, name: str, fn):
        obs = self

        @functools.wraps(fn)
        def tracked(*a, **k):
            if not obs.rule_stack and obs.handed:
                obs.check_handed(0, "<outside-rule>")  # trees handed out between rules (format_code's own code)
            obs.rule_stack.append(name)
            mark = len(obs.handed)
            try:
                return fn(*a, **k)
            finally:
                obs.rule_stack.pop()
                obs.check_handed(mark, name)

        for attr in ("_fix_func",):
            if hasattr(fn, attr):
                setattr(tracked, attr, getattr(fn, attr))
        return tracked

    def check_handed(self, mark: int, rule: str) -> None:
        """At rule exit: every tree that core.parse handed out during the rule and
        that is *still what the cache serves* must equal a fresh parse."""
        if self.in_check:
            return
        self.in_check = True
        try:
            seen = set()
            for src, tree, _r in self.handed[mark:]:
                if id(tree) in seen or id(tree) in self.bad_trees:
                    continue
                seen.add(id(tree))
                if tree_dump(tree) == self.fresh(src):
                    continue
                try:
                    still = self.cached_parse(src) is tree
                except Exception:  # noqa: BLE001
                    still = False
                self.bad_trees[id(tree)] = tree
                if still:
                    self.report(
                        "O2-parse-cache-unfaithful",
                        f"O2:mutated-by:{rule}",
                        f"a tree obtained from core.parse was mutated during {rule} and is still served by the cache; key={src[:200]!r}",
                    )
                else:
                    self.stats.inc("mutated_tree_already_evicted")
        finally:
            self.in_check = False
            if not self.rule_stack:
                del self.handed[:]


# --------------------------------------------------------------------------- operations

def norm_exc(e: BaseException) -> Tuple[str, str, str]:
    return ("exc", type(e).__name__, ADDR_RE.sub("0xX", str(e))[:300])


def _match_repr(m) -> Any:
    if m is None:
        return None
    return [list(m.span), m.string]


def run_op(op: Dict[str, Any], lazies: Dict[int, Any]) -> Any:
    """Execute one operation against pyrefact; returns a JSON-able result."""
    import pyrefact
    from pyrefact import pattern_matching as pm
    from pyrefact import processing

    kind = op["op"]
    os.chdir(op["tree_path"] if op.get("tree_path") else TREE_DIRS[op.get("tree", "A")])
    if kind == "FILE":
        # a call that changes the disk: format_file on a module of the run's private tree (not judged
        # itself; what later calls see of it is)
        target = Path(op["tree_path"]) / op["rel"]
        changed = pyrefact.format_file(target)
        return ["ok", [bool(changed), target.read_text()]]
    if kind == "FMT":
        return ["ok", pyrefact.format_code(
            op["x"], preserve=frozenset(op.get("preserve", ())), safe=op.get("safe", False),
            keep_imports=op.get("keep_imports", False), max_line_length=op.get("max_line_length", 100),
        )]
    if kind == "RULE":
        modname, attr = op["rule"].split(".")
        fn = getattr(sys.modules[f"pyrefact.{modname}"], attr)
        kw = {}
        if op.get("preserve") is not None:
            kw["preserve"] = frozenset(op["preserve"])
        else:
            # rules whose preserve parameter has no default can not be called without it
            import inspect

            try:
                prm = inspect.signature(getattr(fn, "_fix_func", fn)).parameters.get("preserve")
            except (TypeError, ValueError):
                prm = None
            if prm is not None and prm.default is inspect.Parameter.empty:
                kw["preserve"] = frozenset()
        if op["rule"] == "abstractions.overused_constant":
            kw["root_is_static"] = op.get("root_is_static", True)  # its one required keyword
        return ["ok", fn(op["x"], **kw)]
    if kind == "PAT":
        f = op["fn"]
        if f == "findall":
            return ["ok", pm.findall(op["pattern"], op["x"])]
        if f == "sub":
            return ["ok", pm.sub(op["pattern"], op["repl"], op["x"], count=op.get("count", 0))]
        if f == "subn":
            return ["ok", list(pm.subn(op["pattern"], op["repl"], op["x"], count=op.get("count", 0)))]
        if f in ("search", "match", "fullmatch"):
            return ["ok", _match_repr(getattr(pm, f)(op["pattern"], op["x"]))]
        if f == "finditer":
            return ["ok", [_match_repr(m) for m in pm.finditer(op["pattern"], op["x"])]]
        if f == "find_replace":
            return ["ok", [[list(r), t] for r, t in processing.find_replace(op["x"], op["pattern"], op["repl"])]]
        if f == "compile":
            return ["ok", repr(struct_dump(pm.compile(op["pattern"])))]
    if kind == "EVICT":
        import pyrefact.core as pcore

        for i in range(op["k"]):
            pcore.parse(f"evict_{op['tag']}_{i} = {i}\n")
        return ["ok", None]
    if kind == "PARSE":
        import pyrefact.core as pcore

        try:
            return ["ok", C.sha(tree_dump(pcore.parse(op["x"])))[:16]]
        except SyntaxError:
            return ["ok", "syntax-error"]
    if kind == "LAZY_OPEN":
        if op["fn"] == "finditer":
            lazies[op["id"]] = (pm.finditer(op["pattern"], op["x"]), [])
        else:
            lazies[op["id"]] = (processing.find_replace(op["x"], op["pattern"], op["repl"]), [])
        return ["ok", None]
    if kind == "LAZY_STEP":
        g, got = lazies[op["id"]]
        _lazy_advance(g, got, op.get("n", 1))
        return ["ok", list(got)]
    if kind == "LAZY_CLOSE":
        g, got = lazies.pop(op["id"])
        if op.get("how") == "close":
            g.close()
        del g
        return ["ok", None]
    raise C.HarnessError(f"unknown op {kind}")


def _lazy_advance(g, got: List[Any], n: int) -> None:
    """Pull up to n items; the end of the generator (exhausted, or raised - after
    which a generator is finished for good) is recorded once and is final."""
    for _ in range(n):
        if got and (got[-1] == "<stop>" or (isinstance(got[-1], list) and got[-1] and got[-1][0] == "<raised>")):
            return
        try:
            item = next(g)
        except StopIteration:
            got.append("<stop>")
            return
        except SimAbort:
            raise
        except Exception as e:  # noqa: BLE001
            got.append(["<raised>", type(e).__name__, ADDR_RE.sub("0xX", str(e))[:200]])
            return
        got.append(_match_repr(item) if hasattr(item, "span") else [list(item[0]), item[1]])


def judged(op: Dict[str, Any]) -> bool:
    return op["op"] in ("FMT", "RULE", "PAT", "PARSE", "LAZY_STEP")


def reference_op(op: Dict[str, Any], history: List[Dict[str, Any]]) -> Dict[str, Any]:
    """The operation whose fresh-process result is the reference for `op`."""
    if op["op"] == "LAZY_STEP":
        # reference: the same generator run without interleaving, up to the same length
        opener = next(h for h in history if h["op"] == "LAZY_OPEN" and h["id"] == op["id"])
        total = sum(h.get("n", 1) for h in history if h["op"] == "LAZY_STEP" and h["id"] == op["id"] and h["_i"] <= op["_i"])
        return {"op": "LAZYREF", "fn": opener["fn"], "pattern": opener["pattern"], "x": opener["x"], "repl": opener.get("repl", ""), "n": total}
    return {k: v for k, v in op.items() if not k.startswith("_") and k != "abort"}


def run_reference_op(op: Dict[str, Any]) -> Any:
    if op["op"] == "LAZYREF":
        from pyrefact import pattern_matching as pm
        from pyrefact import processing

        g = pm.finditer(op["pattern"], op["x"]) if op["fn"] == "finditer" else processing.find_replace(op["x"], op["pattern"], op["repl"])
        got: List[Any] = []
        _lazy_advance(g, got, op["n"])
        return ["ok", got]
    return run_op(op, {})


def _guarded(fn, *a) -> Any:
    old_stdin = sys.stdin
    sys.stdin = io.StringIO("")
    try:
        return fn(*a)
    except SimAbort:
        return ["aborted"]
    except RecursionError:
        return ["exc", "RecursionError", ""]
    except Exception as e:  # noqa: BLE001
        return list(norm_exc(e))
    except SystemExit as e:
        return ["exc", "SystemExit", str(e)]
    finally:
        sys.stdin = old_stdin


# --------------------------------------------------------------------------- reference server

def _ref_child(knobs: str, op: Dict[str, Any]) -> Any:
    os.chdir(E2_CWD)
    apply_knobs(knobs)
    obs = Observer()
    obs.install()
    if op.get("op") == "MIDS":
        # the whole-module texts a fresh format_code call on x passes through between its rules
        x = op["x"]
        obs.parsed_in_op = {}
        res = _guarded(run_reference_op, dict(op, op="FMT"))
        mids = [s_ for s_ in obs.parsed_in_op if isinstance(s_, str) and s_ != x and len(s_) >= 0.6 * len(x) and len(s_) <= 2 * len(x) + 200]
        final = res[1] if res and res[0] == "ok" else None
        return ["ok", [m for m in mids if m != final][:40]]
    res = _guarded(run_reference_op, op)
    return res


def memo_path(knobs: str, op: Dict[str, Any]) -> Path:
    key = C.sha(knobs, op)
    return MEMO_ROOT / repo_hash() / key[:2] / key


class RefServer:
    """A pristine fork of the zygote that computes reference results in fresh
    forks of itself.  Started before the subject makes its first call."""

    def __init__(self, knobs: str):
        self.knobs = knobs
        self.req_r, self.req_w = os.pipe()
        self.res_r, self.res_w = os.pipe()
        self.pid = os.fork()
        if self.pid == 0:
            try:
                os.close(self.req_w)
                os.close(self.res_r)
                self._serve()
            finally:
                os._exit(0)
        os.close(self.req_r)
        os.close(self.res_w)
        self.stats = C.Counter()

    def _serve(self) -> None:
        fin = os.fdopen(self.req_r, "rb")
        fout = os.fdopen(self.res_w, "wb")
        while True:
            try:
                op = pickle.load(fin)
            except EOFError:
                return
            try:
                if isinstance(op, dict) and op.get("op") == "__EXEC_CASE__":
                    # a whole case, executed from this pristine process (used to confirm a violation
                    # under the shipped cache sizes)
                    res = ["case", C.fork_call(execute, (op["case"],), timeout=900.0)]
                else:
                    res = C.fork_call(_ref_child, (self.knobs, op), timeout=240.0)
            except C.HarnessError as e:
                res = ["harness", str(e)[:300]]
            pickle.dump(res, fout)
            fout.flush()

    def get(self, op: Dict[str, Any]) -> Any:
        path = memo_path(self.knobs, op)
        if os.environ.get("VERIF_NO_MEMO") != "1":
            try:
                with open(path, "rb") as f:
                    self.stats.inc("reference.memo_hits")
                    return pickle.load(f)
            except (OSError, EOFError, pickle.UnpicklingError):
                pass
        with os.fdopen(os.dup(self.req_w), "wb") as f:
            pickle.dump(op, f)
        res = pickle.load(self._fin())
        self.stats.inc("reference.computed")
        if res and res[0] != "harness":
            try:
                path.parent.mkdir(parents=True, exist_ok=True)
                tmp = path.with_name(path.name + f".{os.getpid()}.tmp")
                with open(tmp, "wb") as f:
                    pickle.dump(res, f)
                os.replace(tmp, path)
            except OSError:
                pass
        return res

    def run_case(self, case: Dict[str, Any]) -> Dict[str, Any]:
        with os.fdopen(os.dup(self.req_w), "wb") as f:
            pickle.dump({"op": "__EXEC_CASE__", "case": case}, f)
        res = pickle.load(self._fin())
        if res[0] != "case":
            raise C.HarnessError("confirmation run failed: " + str(res[1])[:300])
        return res[1]

    def _fin(self):
        if not hasattr(self, "_f"):
            self._f = os.fdopen(self.res_r, "rb")
        return self._f

    def close(self) -> None:
        try:
            os.close(self.req_w)
        except OSError:
            pass
        try:
            os.waitpid(self.pid, 0)
        except ChildProcessError:
            pass


# --------------------------------------------------------------------------- execute

def execute(case: Dict[str, Any]) -> Dict[str, Any]:
    if case.get("private_tree"):
        with C.scratch_lock(C.SCRATCH_ROOT / "e2run" / f"{int(case.get('seed') or 0):016x}"):
            return _execute_locked(case)
    return _execute_locked(case)


def _execute_locked(case: Dict[str, Any]) -> Dict[str, Any]:
    C.import_pyrefact()
    ensure_static_tree()
    os.chdir(E2_CWD)
    log = C.EventLog(case.get("seed"))
    knobs = case.get("knobs", "default")
    log.add("knobs", knobs)
    server = RefServer(knobs)  # forked while this process is still pristine
    violations: List[Dict[str, Any]] = []
    stats = C.Counter()
    signatures: List[Tuple[str, bool]] = []
    try:
        apply_knobs(knobs)
        obs = Observer()
        obs.install()
        import pyrefact.core as pcore

        lazies: Dict[int, Any] = {}
        ops = case["ops"]
        private_dir = None
        if case.get("private_tree"):
            private_dir = C.SCRATCH_ROOT / "e2run" / f"{int(case.get('seed') or 0):016x}"
            import shutil as _sh

            _sh.rmtree(private_dir, ignore_errors=True)
            for rel, text in case["private_tree"].items():
                pth = private_dir / rel
                pth.parent.mkdir(parents=True, exist_ok=True)
                pth.write_text(text)
        for i, op in enumerate(ops):
            op["_i"] = i
        sys_path_before = list(sys.path)
        stdout_before = sys.stdout
        outputs: Dict[int, Any] = {}
        touched_before: Dict[str, int] = {}
        for i, op in enumerate(ops):
            obs.op_index = i
            obs.parsed_in_op = {}
            obs.abort = tuple(op["abort"]) if op.get("abort") else None
            obs.crossings = C.Counter()
            if private_dir is not None and op.get("tree") == "P":
                op = dict(op)
                op["tree_path"] = str(private_dir)
                # the disk is part of what a reference depends on: stamp its state into the (memo) key
                op["disk"] = C.sha(sorted((str(p.relative_to(private_dir)), p.read_text()) for p in private_dir.rglob("*.py")))[:16]
                ops[i] = op
            if op.get("x_mid_of") is not None:
                # input = one of the texts a *fresh* format_code call on another input passes through between
                # its rules (an earlier call on a text that a later call will meet half way)
                ask = {k_: v_ for k_, v_ in op.items() if k_ in ("safe", "keep_imports", "preserve", "max_line_length", "tree")}
                mids = server.get(dict(ask, op="MIDS", x=op["x_mid_of"]))
                if not (mids and mids[0] == "ok" and mids[1]):
                    log.add("op", i, op["op"], "skipped: no intermediate text")
                    continue
                op = {k_: v_ for k_, v_ in op.items() if k_ not in ("x_mid_of", "mid_pick")}
                op["x"] = mids[1][ops[i]["mid_pick"] % len(mids[1])]
                ops[i] = op  # the replay file carries the explicit text
                stats.inc("op.MID_resolved")
            if op.get("x_from") is not None:  # REFMT / TWIN: input is an earlier output
                prev = outputs.get(op["x_from"])
                if not (isinstance(prev, list) and prev[0] == "ok" and isinstance(prev[1], str)):
                    log.add("op", i, op["op"], "skipped: no earlier text output")
                    continue
                op = dict(op)
                op["x"] = prev[1]
            hits0 = obs.stats.get("parse.hits", 0)
            res = _guarded(run_op, op, lazies)
            obs.abort = None
            outputs[i] = res
            stats.inc("steps")
            stats.inc(f"op.{op['op']}")
            log.add("op", i, op["op"], op.get("rule") or op.get("fn") or "", C.sha(op.get("x", ""))[:12], C.sha(res)[:16])
            if res[0] == "aborted":
                stats.inc("op.aborted")
            elif res[0] == "exc":
                stats.inc("op.raised")
            # cache-state class of this op (distinctness measure)
            warm_same = any(s in touched_before for s in obs.parsed_in_op)
            state = "warm-same-text" if warm_same else ("warm" if i else "cold")
            if any(touched_before.get(s) == -1 for s in obs.parsed_in_op):
                state = "warm-after-abort"
            hit_prev = obs.stats.get("parse.hits", 0) > hits0 and warm_same
            for s in obs.parsed_in_op:
                touched_before[s] = -1 if res[0] == "aborted" else i
            if len(touched_before) > 4000:
                touched_before.clear()
            if judged(op) and res[0] != "aborted":
                signatures.append((f"{op.get('rule') or op.get('fn') or op['op']}|{state}|{knobs}", bool(hit_prev)))
                if hit_prev:
                    stats.inc("judged_op_hit_entry_touched_before")
                ref = server.get(reference_op(op, ops))
                if ref and ref[0] == "harness":
                    raise C.HarnessError("reference: " + ref[1])
                if ref != res:
                    stats.inc("divergences")
                    same_text_other_tree = any(
                        h.get("x") == op.get("x") and h.get("tree", "A") != op.get("tree", "A") for h in ops[:i]
                    )
                    violations.append({
                        "class": "O1-result-differs-from-fresh-process",
                        "finding_key": (
                            "O1:same-text-formatted-earlier-in-another-project-tree" if same_text_other_tree
                            else f"O1:{op.get('rule') or op.get('fn') or op['op']}"
                        ),
                        "detail": f"op #{i} {op['op']} {op.get('rule') or op.get('fn') or ''}: result after this history differs from the result in a fresh process; "
                                  f"history={_short(res)} fresh={_short(ref)}",
                        "op": i,
                    })
                # O5 side invariant (C03): valid in -> valid out (fault-free ops only)
                if not op.get("abort") and res[0] == "ok" and (op["op"] in ("FMT", "RULE") or (op["op"] == "PAT" and op.get("fn") in ("sub", "subn"))):
                    text = res[1] if isinstance(res[1], str) else (res[1][0] if isinstance(res[1], list) and res[1] and isinstance(res[1][0], str) else None)
                    if text is not None and _parses(op["x"]) and "pyrefact: skip_file" not in op["x"]:
                        stats.inc("O5.valid_in_checked")
                        if not _parses(text):
                            violations.append({"class": "O5-valid-in-invalid-out", "finding_key": f"O5:{op.get('rule') or op.get('fn') or op['op']}:{C.sha(op['x'])[:10]}",
                                               "detail": f"op #{i}: parsable input, unparsable output", "op": i})
            # PROBE: what the cache serves for every source this op parsed must be faithful
            if op["op"] != "EVICT":
                for src in list(obs.parsed_in_op)[-30:]:
                    try:
                        pcore.parse(src)
                    except (SyntaxError, ValueError, RecursionError):
                        pass
                    stats.inc("probes")
            del obs.handed[:]
            # interpreter-global state
            if sys.path != sys_path_before:
                violations.append({"class": "global-state-leak", "finding_key": "G:sys.path", "detail": f"sys.path changed by op #{i}: {[p for p in sys.path if p not in sys_path_before]}", "op": i})
                sys.path[:] = sys_path_before
            if sys.stdout is not stdout_before:
                violations.append({"class": "global-state-leak", "finding_key": "G:sys.stdout", "detail": f"sys.stdout replaced by op #{i}", "op": i})
                sys.stdout = stdout_before
            for f in obs.findings:
                if f not in violations:
                    violations.append(f)
            if violations and not case.get("keep_going"):
                break
        # C09: chains of repeated formatting inside this long-lived process
        for chain in case.get("chains", []):
            if violations and not case.get("keep_going"):
                break
            first = ops[chain[0]]
            texts = [first["x"]]
            complete = True
            for i in chain:
                r = outputs.get(i)
                if not (isinstance(r, list) and r[0] == "ok" and isinstance(r[1], str)):
                    complete = False
                    break
                texts.append(r[1])
            if not complete or "pyrefact: skip_file" in first["x"]:
                stats.inc("chains.incomplete_or_raised")
                continue
            stats.inc("chains.checked")
            if texts[1] != texts[0]:
                stats.inc("chains.input_changed")
            # distinctness for C09: one signature per (input, options) chain; non-trivial = the formatter changed the input
            signatures.append(("chain|" + C.sha(first["x"], {k: first.get(k) for k in ("safe", "keep_imports", "preserve", "max_line_length")})[:14], texts[1] != texts[0]))
            fixed_at = next((k for k in range(len(texts) - 1) if texts[k] == texts[k + 1]), None)
            stats.inc(f"chains.fixed_after_{fixed_at if fixed_at is not None else 'never'}")
            key = C.sha(first["x"], first.get("safe", False), first.get("keep_imports", False))[:12]
            if re.fullmatch(r"import \w+\n(if \w+\.\w+:\n    import \w+\n)+", first["x"]) and not first.get("keep_imports"):
                # known finding K7: a chain of imports that guard each other is taken apart one level per application
                key = "import-chain-peels-one-level-per-application"
            if len(texts) >= 7 and texts[5] != texts[6]:
                violations.append({"class": "C09-no-fixed-point-within-five-applications", "finding_key": "e2:noconv:" + key,
                                   "detail": f"f^5(x) != f^6(x) for the input of op #{chain[0]} (options safe={first.get('safe', False)}, keep_imports={first.get('keep_imports', False)})"})
            for a in range(len(texts)):
                for b in range(a + 2, len(texts)):
                    if texts[a] == texts[b] and any(texts[m] != texts[a] for m in range(a + 1, b)):
                        violations.append({"class": "C09-cycle", "finding_key": "e2:cycle:" + key,
                                           "detail": f"application {a} and {b} give the same text with a different text in between (input of op #{chain[0]})"})
                        break
                else:
                    continue
                break
            if fixed_at is not None and any(texts[k] != texts[fixed_at] for k in range(fixed_at, len(texts))):
                if not any(v["class"].startswith("C09") for v in violations):
                    violations.append({"class": "C09-left-fixed-point", "finding_key": "e2:left:" + key,
                                       "detail": f"the text was a fixed point at application {fixed_at} but changed again later"})
        stats.merge(obs.stats)
        stats.merge(server.stats)
        if violations and knobs != "default" and not case.get("_confirming"):
            # Cache sizes are internals of the shipped tool, not configuration.  Altered sizes are used as an
            # amplifier (an entry that can not be evicted, caches that forget at once); what they expose
            # counts only if the same history also fails with the sizes the tool ships with.  The
            # confirmation runs in a fresh fork of the pristine reference server.
            classes = {v["class"] for v in violations}
            base_case = strip_case(case)
            candidates = [base_case]
            # ... or a sub-history of it: only the operations on the text the violation is about (fewer parses
            # in between, so the shipped 100-entry cache still holds what the unbounded one held)
            vi = violations[0].get("op")
            if isinstance(vi, int) and vi < len(base_case["ops"]):
                if base_case.get("chains"):
                    for ch in base_case["chains"]:
                        if vi in ch:
                            remap = {old_i: new_i for new_i, old_i in enumerate(ch)}
                            sub_ops = []
                            for old_i in ch:
                                o = dict(base_case["ops"][old_i])
                                if o.get("x_from") is not None:
                                    o["x_from"] = remap[o["x_from"]]
                                sub_ops.append(o)
                            candidates.append(dict(base_case, ops=sub_ops, chains=[list(range(len(ch)))]))
                else:
                    xs = base_case["ops"][vi].get("x")
                    keep = [i for i, o in enumerate(base_case["ops"][: vi + 1]) if o.get("x") == xs and o.get("x_from") is None and o["op"] in ("FMT", "RULE", "PAT", "PARSE")]
                    if 1 < len(keep) < vi + 1:
                        candidates.append(dict(base_case, ops=[dict(base_case["ops"][i]) for i in keep]))
            confirmed = []
            for cand in candidates:
                confirm = server.run_case(dict(cand, knobs="default", _confirming=True, keep_going=True))
                confirmed = [v for v in confirm.get("violations", []) if v["class"] in classes]
                if confirmed:
                    case["ops"], case["chains"] = cand["ops"], cand.get("chains", [])
                    break
            if confirmed:
                stats.inc("violations_confirmed_under_shipped_cache_sizes")
                violations = confirmed
                case["knobs"] = "default"
            else:
                stats.inc("observed.violation_only_under_altered_cache_sizes")
                stats.inc("observed.only_under_altered_cache_sizes." + violations[0]["class"])
                violations = []
    finally:
        server.close()
        if case.get("private_tree"):
            import shutil as _sh

            _sh.rmtree(C.SCRATCH_ROOT / "e2run" / f"{int(case.get('seed') or 0):016x}", ignore_errors=True)
    if case.get("ignore_history"):
        for v in violations:
            v["props"] = ["C20", "C05"]  # whether an opt-out is honoured depends on history
    if case.get("trees"):
        for v in violations:
            v["props"] = ["C18", "C05"]  # import normalisation against another on-disk layout, through history
    for v in violations:
        log.add("violation", v["class"], v["finding_key"])
    log.add("verdict", "ok" if not violations else "violations")
    return {
        "violations": violations,
        "violation": violations[0] if violations else None,
        "digest": log.digest(),
        "stats": dict(stats),
        "signatures": signatures,
        "evaluations": 1,
        "log": log.lines() if (violations or os.environ.get("VERIF_FULL_LOG")) else None,
    }


def _short(r: Any) -> str:
    s = json.dumps(r, default=repr)
    return s if len(s) < 400 else s[:200] + " ... " + s[-200:]


def _parses(text: str) -> bool:
    try:
        ast.parse(text)
        return True
    except (SyntaxError, ValueError, RecursionError):
        return False


# --------------------------------------------------------------------------- generation

_PATTERNS: Optional[List[Dict[str, str]]] = None


def harvest_patterns() -> List[Dict[str, str]]:
    """Every `{{...}}` template literal in pyrefact's own sources (so user calls
    collide with cache entries created by rules) + hand-written ones."""
    global _PATTERNS
    if _PATTERNS is not None:
        return _PATTERNS
    pats: Dict[str, None] = {}
    for p in sorted((C.REPO / "pyrefact").glob("*.py")):
        try:
            tree = ast.parse(p.read_text())
        except SyntaxError:
            continue
        for node in ast.walk(tree):
            if isinstance(node, ast.Constant) and isinstance(node.value, str) and "{{" in node.value and len(node.value) < 400:
                pats[node.value] = None
    for s in [
        "{{x}} = {{y}}", "print({{...*}})", "{{a}} + {{b}}", "list()", "x", "{{f}}({{arg}})",
        "for {{i}} in {{it}}:\n    {{body*}}", "if {{t}}:\n    {{body*}}\nelse:\n    {{orelse*}}",
        "[{{e}} for {{v}} in {{it}}]", "return {{v}}", "import {{m}}", "{{a}}.{{b}}", "{{x}} == None",
        "class {{name}}:\n    {{body*}}",
    ]:
        pats[s] = None
    _PATTERNS = [{"pattern": s} for s in pats]
    return _PATTERNS


_REPLS = ["{{x}}", "{{y}} = {{x}}", "None", "{{a}}", "foo({{a}}, {{b}})", "pass", "{{f}}({{arg}}, 1)", "{{b}} + {{a}}", "{{v}}"]


def generate(rng: random.Random, profile: Optional[Dict[str, Any]] = None) -> Dict[str, Any]:
    from . import rules as R

    profile = profile or {}
    corpus = gen.corpus()
    rule_names = list(R.harvest().items())
    pats = harvest_patterns()
    faults = bool(profile.get("faults"))
    knobs = rng.choice(["default", "default", "unbounded", "unbounded", "small", "tiny", "mixed"])
    if profile.get("knobs"):
        knobs = profile["knobs"]
    n_ops = rng.randint(6, 28)
    n_focus = rng.randint(2, 5)
    names_only = [n for n, _ in rule_names]
    tail_rules = R.harvest_tail() or names_only
    if profile.get("generated"):
        # focus on generated modules (incl. the special blocks: equal-count over-used constants,
        # process-dependent constant expressions, several spellings of one string)
        focus_e = []
        theme = rng.choice(gen.SPECIAL_BLOCKS + (None, None, None))  # half of the runs stay on one family of inputs
        for _ in range(n_focus + (3 if theme else 0)):
            kind = theme if (theme and rng.random() < 0.8) else None
            x = gen.gen_module(rng, process_dependent=rng.random() < 0.4, special=True, force=kind)
            if rng.random() < 0.25:
                x = gen.with_blank_runs(rng, x)
            focus_e.append((x, None))
        if rng.random() < 0.3:
            a, b = gen.near_twins(rng)
            focus_e[:2] = [(a, None), (b, None)]
    else:
        focus_e = [gen.pick_entry(rng, corpus, names_only) for _ in range(n_focus)]
    focus = [t for t, _ in focus_e]
    focus_rule = {t: r for t, r in focus_e if r}
    takes_preserve = {n: tp for n, (_f, tp) in rule_names}
    mix = {
        "FMT": rng.choice([1, 3, 6]), "RULE": rng.choice([2, 6, 10]), "PAT": rng.choice([0, 2, 4]),
        "SAME": rng.choice([1, 3, 5]), "REFMT": rng.choice([0, 1, 3]), "EVICT": rng.choice([0, 0, 1]),
        "LAZY": rng.choice([0, 1, 2]), "PARSE": rng.choice([0, 1]), "MID": rng.choice([0, 0, 1, 3]),
    }
    kinds = list(mix)
    weights = [mix[k] for k in kinds]
    ops: List[Dict[str, Any]] = []
    open_lazy: List[int] = []
    lazy_id = 0
    text_ops: List[int] = []

    def pick_x() -> str:
        x = rng.choice(focus) if rng.random() < 0.85 else gen.pick_input(rng, corpus)
        if rng.random() < 0.08:
            # the same code as an indented fragment (format_code accepts those): nothing learnt from it may be
            # applied to the flush-left text, and the other way round
            import textwrap

            xi = textwrap.indent(x, "    ")
            try:
                ast.parse(textwrap.dedent(xi))
                return xi
            except (SyntaxError, ValueError):
                return x
        return x

    while len(ops) < n_ops:
        k = rng.choices(kinds, weights)[0]
        op: Optional[Dict[str, Any]] = None
        if k == "FMT":
            op = {"op": "FMT", "x": pick_x()}
            if rng.random() < 0.3:
                op["safe"] = True
            if rng.random() < 0.2:
                op["keep_imports"] = True
            if rng.random() < 0.25:
                op["preserve"] = sorted(gen.some_names(rng, op["x"]))
            if rng.random() < 0.15:
                op["max_line_length"] = rng.choice([60, 79, 120])
        elif k == "RULE":
            x = pick_x()
            if profile.get("generated") and rng.random() < 0.5:
                name = rng.choice(tail_rules)  # stages format_code runs once, rarely met in isolation
                takes_p = takes_preserve[name]
            elif x in focus_rule and rng.random() < 0.6:
                name = focus_rule[x]  # the rule this snippet is an example input of
                takes_p = takes_preserve[name]
            else:
                name, (_fn, takes_p) = rng.choice(rule_names)
            op = {"op": "RULE", "rule": name, "x": x}
            if takes_p and rng.random() < 0.5:
                op["preserve"] = sorted(gen.some_names(rng, op["x"]))
        elif k == "PAT":
            f = rng.choice(["findall", "sub", "subn", "search", "match", "fullmatch", "finditer", "find_replace", "compile"])
            op = {"op": "PAT", "fn": f, "pattern": rng.choice(pats)["pattern"], "x": pick_x()}
            if f in ("sub", "subn", "find_replace"):
                op["repl"] = rng.choice(_REPLS)
                if f != "find_replace" and rng.random() < 0.3:
                    op["count"] = rng.randint(1, 2)
        elif k == "SAME" and ops:
            # the cheapest history that matters: the same call again, at short distance
            src = rng.choice(ops[-4:]) if rng.random() < 0.7 else rng.choice(ops)
            if src["op"] in ("FMT", "RULE", "PAT", "PARSE"):
                op = {kk: vv for kk, vv in src.items() if kk != "abort"}
        elif k == "REFMT" and text_ops:
            j = rng.choice(text_ops[-5:])
            base = ops[j]
            op = {"op": "FMT", "x": "", "x_from": j}
            for kk in ("safe", "keep_imports", "preserve", "max_line_length"):
                if kk in base:
                    op[kk] = base[kk]
        elif k == "MID":
            # an intermediate state of a focus input first, the input itself (same options) right after or later
            t_ = rng.choice(focus)
            op = {"op": "FMT", "x": "", "x_mid_of": t_, "mid_pick": rng.randrange(40)}
            follow = {"op": "FMT", "x": t_}
            for kk, vv in (("safe", True), ("keep_imports", True), ("max_line_length", rng.choice([60, 79, 120]))):
                if rng.random() < 0.15:
                    op[kk] = follow[kk] = vv
            text_ops.append(len(ops))
            ops.append(op)
            if rng.random() < 0.7:
                op = follow
            else:
                continue
        elif k == "EVICT":
            op = {"op": "EVICT", "k": rng.choice([5, 50, 120]), "tag": len(ops)}
        elif k == "PARSE":
            op = {"op": "PARSE", "x": pick_x()}
        elif k == "LAZY":
            if open_lazy and rng.random() < 0.6:
                lid = rng.choice(open_lazy)
                if rng.random() < 0.7:
                    op = {"op": "LAZY_STEP", "id": lid, "n": rng.randint(1, 3)}
                else:
                    op = {"op": "LAZY_CLOSE", "id": lid, "how": rng.choice(["drop", "close"])}
                    open_lazy.remove(lid)
            else:
                lazy_id += 1
                f = rng.choice(["finditer", "find_replace"])
                op = {"op": "LAZY_OPEN", "id": lazy_id, "fn": f, "pattern": rng.choice(pats)["pattern"], "x": pick_x(), "repl": rng.choice(_REPLS)}
                open_lazy.append(lazy_id)
        if op is None:
            continue
        if faults and op["op"] in ("FMT", "RULE", "PAT") and rng.random() < 0.25:
            op["abort"] = [rng.choice(["core.parse", "core.parse", "core.unparse", "processing._do_rewrite", "formatting.format_with_black"]), rng.choice([1, 2, 3, 5, 8, 13, 40, 100])]
        if op["op"] in ("FMT",) or (op["op"] == "RULE"):
            text_ops.append(len(ops))
        ops.append(op)
    return {"engine": "e2", "knobs": knobs, "ops": ops}


def generate_sweep(rng: random.Random, index: int, of: int, light: bool = False) -> Dict[str, Any]:
    """Systematic part: every corpus entry gets the cheapest history that matters
    -- its own rule and format_code, each twice in a row, plain and with an ignore
    comment -- inside one long-lived process per slice of the corpus."""
    from . import rules as R

    corp = gen.corpus()
    rule_names = list(R.harvest())
    ops: List[Dict[str, Any]] = []
    # two sweeps over the corpus: even indices with unbounded caches (a poisoned entry can never be
    # evicted before the repeat arrives), odd indices with the shipped sizes and eviction pressure
    # between the repeats (caches with different life times meet)
    half = max(1, of // 2)
    knobs = "unbounded" if index % 2 == 0 else "default"
    for entry in corp[index // 2 :: half]:
        x = entry["source"]
        r = gen.origin_rule(entry, rule_names)
        variants = [x]
        xi = gen.with_ignore(rng, x)
        if xi != x:
            variants.append(xi)
        for vi, v in enumerate(variants):
            if r:
                ops.append({"op": "RULE", "rule": r, "x": v})
                ops.append({"op": "RULE", "rule": r, "x": v})
            if light and vi > 0 and r:
                continue  # quick tier: the ignore variant goes through its rule only (format_code in thorough)
            ops.append({"op": "FMT", "x": v})
            ops.append({"op": "FMT", "x": v})
            if knobs == "default":
                ops.append({"op": "EVICT", "k": 120, "tag": len(ops)})
            if r:
                ops.append({"op": "RULE", "rule": r, "x": v})
            if knobs == "default" and not light:
                ops.append({"op": "FMT", "x": v})
    return {"engine": "e2", "knobs": knobs, "ops": ops}


def generate_blocks(rng: random.Random, index: int, of: int) -> Dict[str, Any]:
    """Systematic part for the generator's special block families (the unusual
    shapes that seeded changes needed): every family gets, per slice, a few fresh
    variants, each through format_code, through every single-run stage of
    format_code in isolation, and through format_code again."""
    from . import rules as R

    kinds = gen.SPECIAL_BLOCKS
    kind = kinds[index % len(kinds)]
    tail = R.harvest_tail()
    takes = {n: tp for n, (_f, tp) in R.harvest().items()}
    ops: List[Dict[str, Any]] = []
    if (index // len(kinds)) % 2 == 1:
        # every text a fresh call passes through between its rules, as an earlier call of its own, followed
        # by the call itself: nothing remembered about a text may cut a later call short half way
        for v in range(2):
            x = gen.gen_module(rng, special=True, force=kind, process_dependent=(kind in ("doc", "spell")))
            opts = {"safe": True} if rng.random() < 0.2 else {}
            for j in range(10):
                ops.append(dict({"op": "FMT", "x": "", "x_mid_of": x, "mid_pick": j}, **opts))
                ops.append(dict({"op": "FMT", "x": x}, **opts))
        return {"engine": "e2", "knobs": "default", "ops": ops, "keep_going": False}
    for v in range(3):
        x = gen.gen_module(rng, special=True, force=kind, process_dependent=(kind in ("doc", "spell")))
        if v == 2:
            x = gen.with_blank_runs(rng, x)
        ops.append({"op": "FMT", "x": x})
        for name in (list(takes) if v == 0 else tail):  # first variant: every rule on its own, not only the late stages
            op: Dict[str, Any] = {"op": "RULE", "rule": name, "x": x}
            if takes.get(name) and rng.random() < 0.3:
                op["preserve"] = sorted(gen.some_names(rng, x))
            ops.append(op)
        ops.append({"op": "FMT", "x": x, **({"safe": True} if rng.random() < 0.3 else {})})
    return {"engine": "e2", "knobs": rng.choice(["default", "unbounded"]), "ops": ops}


_DIRECT_BACKEND_RULES = (
    "fixes.move_before_loop", "fixes.fix_duplicate_imports", "fixes.missing_context_manager", "fixes.swap_if_else",
    "fixes.early_continue", "fixes.sort_imports", "fixes.remove_duplicate_functions", "abstractions.overused_constant",
    "abstractions.simplify_if_control_flow", "abstractions.create_abstractions",
)


def generate_ignore_history(rng: random.Random, profile: Dict[str, Any]) -> Dict[str, Any]:
    """Opt-out comments through history: texts without any opt-out comment are
    formatted, and in between rules of the direct editing back-end (which consult
    the ignore test on their own, outside the scheduler) run on texts with an
    ignore comment.  Whether the comment is honoured must not depend on what the
    process looked at just before."""
    from . import rules as R

    corp = gen.corpus()
    names = list(R.harvest())
    direct = [n for n in _DIRECT_BACKEND_RULES if n in names]
    pool = [(e, gen.origin_rule(e, names)) for e in corp]
    pool = [(e, r) for e, r in pool if r in direct]
    ops: List[Dict[str, Any]] = []
    for _ in range(rng.randint(3, 6)):
        plain = rng.choice(corp)["source"]
        if "pyrefact" in plain:
            continue
        ops.append({"op": "FMT", "x": plain})
        e, r = rng.choice(pool)
        xi = gen.with_ignore(rng, e["source"])
        op: Dict[str, Any] = {"op": "RULE", "rule": r, "x": xi}
        ops.append(op)
        if rng.random() < 0.4:
            ops.append({"op": "FMT", "x": xi})
    return {"engine": "e2", "knobs": "default", "ops": ops, "keep_going": False, "ignore_history": True}


def generate_disk(rng: random.Random, profile: Dict[str, Any]) -> Dict[str, Any]:
    """History with calls that change the disk: clients of a private project tree
    are formatted, a module they import from is formatted *in place* by
    format_file (it gains an import, loses unused code, ...), and the clients are
    formatted again.  Every judged call is compared with a fresh process looking
    at the same disk state."""
    k = rng.randrange(1000)
    geo, rep = f"vsd{k}_geometry", f"vsd{k}_report"
    std = rng.choice(["math", "os", "json"])
    use = {"math": "math.sqrt(x * x + y * y)", "os": "os.path.join(str(x), str(y))", "json": "json.dumps([x, y])"}[std]
    tree = {
        f"{geo}.py": f"def norm(x, y):\n    return {use}\n\n\ndef spare(x):\n    return x\n\n\nprint(norm(3, 4))\n",
        f"{geo}_hub.py": f"from {geo} import norm\n",
    }
    clients = [
        f"from {geo} import {std}, norm\n\nprint(norm(1, 2), {std}.__name__)\n",
        f"from {geo} import *\n\nprint(norm(1, 2))\n",
        f"from {geo}_hub import norm\n\nprint(norm(5, 6))\n",
        f"from {geo} import norm, spare\n\nprint(norm(1, 2), spare(3))\n",
    ]
    ops: List[Dict[str, Any]] = []
    for _ in range(rng.randint(2, 4)):
        ops.append({"op": "FMT", "x": rng.choice(clients), "tree": "P"})
    ops.insert(rng.randint(1, len(ops)), {"op": "FILE", "rel": f"{geo}.py", "tree": "P"})
    for _ in range(rng.randint(1, 3)):
        x = rng.choice(clients)
        ops.append({"op": rng.choice(["FMT", "FMT", "RULE"]), "x": x, "tree": "P"})
        if ops[-1]["op"] == "RULE":
            ops[-1]["rule"] = rng.choice(["tracing.fix_reimported_names", "tracing.fix_starred_imports"])
    return {"engine": "e2", "knobs": "default", "ops": ops, "private_tree": tree, "keep_going": False, "trees": True}


def generate_trees(rng: random.Random, profile: Dict[str, Any]) -> Dict[str, Any]:
    """History over two project trees (same module names, other layout) in one
    process: clients of plain modules are formatted in tree A and tree B in drawn
    order; mostly *different* client texts per tree (nothing keyed by text can be
    stale then), sometimes the same text in both (known finding K5)."""
    if rng.random() < 0.3:
        # one tree only, clients of packages: importing a submodule makes the tool import the package into
        # its own process (find_spec), and nothing later may depend on whether that has happened
        pk = [c for c in gen.STATIC_TREE_CLIENTS if "vs_pkg" in c]
        ops_p: List[Dict[str, Any]] = []
        for _ in range(rng.randint(3, 7)):
            x = rng.choice(pk)
            if rng.random() < 0.3:
                x = x + "\nprint('variant')\n"
            ops_p.append({"op": rng.choice(["FMT", "FMT", "RULE"]), "x": x, "tree": "A"})
            if ops_p[-1]["op"] == "RULE":
                ops_p[-1]["rule"] = rng.choice(["tracing.fix_reimported_names", "tracing.fix_starred_imports"])
        return {"engine": "e2", "knobs": "default", "ops": ops_p, "keep_going": False, "trees": True}
    if rng.random() < 0.2:
        # calls that raise half way (an imported module does not parse), then calls on other texts that
        # go through the same modules: the aftermath is judged against a fresh process
        raising = ["from vs_helpers import *\n\nprint(foo())\n", "from vs_helpers import *\nfrom vs_lib import *\n\nprint(foo(), lib_func(1))\n"]
        after = ["from vs_helpers import *\n\nprint(bar())\n", "from vs_helpers import *\n\nprint(bar(), baz())\n",
                 "from vs_lib import *\nfrom vs_helpers import *\n\nprint(baz(), lib_func(2))\n", "from vs_helpers import bar\n\nprint(bar())\n"]
        ops_r: List[Dict[str, Any]] = []
        for _ in range(rng.randint(3, 8)):
            x = rng.choice(raising if rng.random() < 0.4 else after)
            op_r: Dict[str, Any] = {"op": "FMT", "x": x, "tree": "A"}
            if rng.random() < 0.3:
                op_r = {"op": "RULE", "rule": rng.choice(["tracing.fix_reimported_names", "tracing.fix_starred_imports"]), "x": x, "tree": "A"}
            ops_r.append(op_r)
        return {"engine": "e2", "knobs": rng.choice(["default", "unbounded"]), "ops": ops_r, "keep_going": False, "trees": True}
    clients = [c for c in gen.STATIC_TREE_CLIENTS if "vs_pkg" not in c]
    variants = []
    for c in clients:
        variants.append(c)
        variants.append(c + "\nprint('variant')\n")
        variants.append("import os\n" + c + "print(os.sep)\n")
    ops: List[Dict[str, Any]] = []
    used: Dict[str, str] = {}
    same_text_allowed = rng.random() < 0.25
    for _ in range(rng.randint(4, 10)):
        x = rng.choice(variants)
        tree = rng.choice(["A", "B"])
        if not same_text_allowed and used.get(x, tree) != tree:
            tree = used[x]
        used.setdefault(x, tree)
        op: Dict[str, Any] = {"op": "FMT", "x": x, "tree": tree}
        if rng.random() < 0.3:
            op = {"op": "RULE", "rule": rng.choice(["tracing.fix_reimported_names", "tracing.fix_starred_imports"]), "x": x, "tree": tree}
        ops.append(op)
    if ops and rng.random() < 0.6:
        # the same call again after the parse cache has turned over (longer-lived caches still know the text)
        again = dict(rng.choice(ops))
        ops.append({"op": "EVICT", "k": 120, "tag": len(ops)})
        ops.append(again)
    # small caches: the parse cache forgets a client's tree between two calls on the same text while
    # longer-lived caches (trace_origin) still hold nodes of it
    return {"engine": "e2", "knobs": rng.choice(["default", "unbounded", "small", "tiny"]), "ops": ops, "keep_going": False, "trees": True}


def generate_chains(rng: random.Random, profile: Dict[str, Any]) -> Dict[str, Any]:
    """C09 workload: 2-4 inputs, each formatted six times in a row on its own
    output with one drawn option combination; the chains are interleaved so the
    applications of one chain meet the cache state left by the others."""
    corp = gen.corpus()
    if profile.get("blocks"):
        # systematic: one special block family per slice, several fresh variants (settle twice as many:
        # the shapes on which the rules' natural two-cycles live are a small part of that family)
        kind = gen.SPECIAL_BLOCKS[profile["index"] % len(gen.SPECIAL_BLOCKS)]
        inputs = [gen.gen_module(rng, special=True, force=kind, process_dependent=(kind in ("doc", "spell"))) for _ in range(8 if kind == "settle" else 4)]
        if kind == "deep":
            inputs = inputs + inputs  # each under two line lengths
    elif profile.get("index") is not None:
        entries = corp[profile["index"] :: profile["of"]]
        inputs = [e["source"] for e in entries]
    else:
        inputs = []
        for _ in range(rng.randint(2, 4)):
            r = rng.random()
            if r < 0.4:
                inputs.append(gen.pick_input(rng, corp))
            elif r < 0.85:
                kind = rng.choice(gen.SPECIAL_BLOCKS + (None, None))
                x = gen.gen_module(rng, special=True, force=kind)
                inputs.append(x)
                if kind == "deep":
                    inputs.append(x)  # the same text under a second line length
            else:
                inputs.append(rng.choice(gen.STATIC_TREE_CLIENTS))
    ops: List[Dict[str, Any]] = []
    chains: List[List[int]] = [[] for _ in inputs]
    opts = []
    for x in inputs:
        o: Dict[str, Any] = {}
        if rng.random() < 0.3:
            o["safe"] = True
        if rng.random() < 0.2:
            o["keep_imports"] = True
        if rng.random() < 0.2:
            o["preserve"] = sorted(gen.some_names(rng, x))
        if "def deep_" in x:
            o["max_line_length"] = rng.choice([60, 72, 79, 100, 120])
        elif rng.random() < 0.15:
            o["max_line_length"] = rng.choice([60, 72, 79, 120])
        opts.append(o)
    order = [ci for ci in range(len(inputs)) for _ in range(6)]
    if profile.get("index") is None or profile.get("blocks"):
        rng.shuffle(order)
    for ci in order:
        op: Dict[str, Any] = {"op": "FMT", "x": inputs[ci] if not chains[ci] else "", **opts[ci]}
        if chains[ci]:
            op["x_from"] = chains[ci][-1]
        chains[ci].append(len(ops))
        ops.append(op)
    return {"engine": "e2", "knobs": rng.choice(["default", "default", "unbounded", "small"]), "ops": ops, "chains": chains, "keep_going": True}


def run_seed(seed: int, **profile) -> Dict[str, Any]:
    rng = random.Random(seed)
    if profile.get("chains"):
        case = generate_chains(rng, profile)
    elif profile.get("blocks"):
        case = generate_blocks(rng, profile["index"], profile["of"])
    elif profile.get("ignore_history"):
        case = generate_ignore_history(rng, profile)
    elif profile.get("disk"):
        case = generate_disk(rng, profile)
    elif profile.get("trees"):
        case = generate_trees(rng, profile)
    elif profile.get("sweep"):
        case = generate_sweep(rng, profile["index"], profile["of"], light=bool(profile.get("light")))
    else:
        case = generate(rng, profile)
    case["seed"] = seed
    res = execute(case)
    res["seed"] = seed
    if res["violations"]:
        res["case"] = strip_case(case)
    if seed % 53 == 0 or res["violations"]:
        res["sample"] = {"knobs": case["knobs"], "ops": [
            {k: (v if k != "x" else v[:120]) for k, v in op.items() if not k.startswith("_")} for op in case["ops"][:8]
        ]}
    return res


def strip_case(case: Dict[str, Any]) -> Dict[str, Any]:
    c = dict(case)
    c["ops"] = [{k: v for k, v in op.items() if not k.startswith("_")} for op in case["ops"]]
    return c


def shrink(case: Dict[str, Any], vclass: str, still_fails) -> Dict[str, Any]:
    case = strip_case(case)
    idx = list(range(len(case["ops"])))

    def with_ops(keep: List[int]) -> Dict[str, Any]:
        keep_set = set(keep)
        remap = {}
        ops = []
        for i, op in enumerate(case["ops"]):
            if i in keep_set:
                remap[i] = len(ops)
                ops.append(dict(op))
        for op in ops:
            if op.get("x_from") is not None:
                if op["x_from"] in remap:
                    op["x_from"] = remap[op["x_from"]]
                else:
                    op["x_from"] = -1
        ops = [op for op in ops if op.get("x_from") != -1]
        # lazies need their opener
        opened = set()
        out = []
        for op in ops:
            if op["op"] == "LAZY_OPEN":
                opened.add(op["id"])
            if op["op"] in ("LAZY_STEP", "LAZY_CLOSE") and op["id"] not in opened:
                continue
            out.append(op)
        c = dict(case)
        c["ops"] = out
        if case.get("chains"):
            # a chain survives only whole
            pos = {id(o): k for k, o in enumerate(out)}
            c["chains"] = []
            for ch in case["chains"]:
                if all(i in remap for i in ch):
                    c["chains"].append([remap[i] for i in ch])
        return c

    kept = C.ddmin(idx, lambda k: still_fails(with_ops(k)), max_tests=30 if case.get("chains") else 60)
    case = with_ops(kept)
    for i, op in enumerate(case["ops"]):
        if op.get("abort"):
            c = dict(case)
            c["ops"] = [dict(o) for o in case["ops"]]
            c["ops"][i].pop("abort")
            if still_fails(c):
                case = c
    if case.get("knobs") != "default":
        c = dict(case)
        c["knobs"] = "default"
        if still_fails(c):
            case = c
    return case


COMPONENTS = {
    "real": ["all of pyrefact (format_code, every rule reachable from it, pattern_matching API, core caches, tracing)"],
    "stub": ["nothing; observing wrappers around core.parse / compile_template / _group_nodes_in_scope / unparse / _do_rewrite / format_with_black and around each rule (installed identically in subject and reference)"],
}


def props_of(v: Dict[str, Any]) -> List[str]:
    cls = v["class"]
    if v.get("props"):
        return v["props"]
    if cls.startswith("O5"):
        return ["C03"]
    if cls.startswith("C09"):
        return ["C09"]
    return ["C05"]
