"""Determinism self-test: N seeds per engine, each run twice in *fresh*
interpreters -- the second with another harness PYTHONHASHSEED and another batch
worker count -- and the event-log digests must be identical."""
from __future__ import annotations

import os
import subprocess
import sys

from . import core as C

ENGINES = {
    "e1_txn": ["{}", '{"no_faults": true}'],
    "e2_history": ["{}", '{"faults": true}', '{"chains": true}', '{"generated": true}', '{"trees": true}', '{"disk": true}', '{"ignore_history": true}', '{"blocks": true, "index": 3, "of": 28}'],
    "e3_pool": ['{"profile": "base", "schedules": 2}', '{"profile": "stagefault", "schedules": 1}', '{"profile": "converge", "schedules": 1}',
                '{"profile": "edges", "schedules": 2}', '{"profile": "preserve", "schedules": 1}', '{"profile": "imports", "schedules": 1}', '{"profile": "optout", "schedules": 1}'],
    "e5_optout": ["{}", '{"kind": "preserve"}'],
    "e4_layout": ['{"ops": 6}'],
}


def _digests(engine: str, n: int, nproc: int, hashseed: str, kwargs: str) -> dict:
    env = dict(os.environ)
    env["VERIF_HASHSEED"] = hashseed
    out = subprocess.run(
        [str(C.VERIF_DIR / "vsim"), "digests", engine, "--n", str(n), "--nproc", str(nproc), "--kwargs", kwargs],
        capture_output=True, text=True, env=env, timeout=3600,
    )
    res = {}
    for line in out.stdout.splitlines():
        parts = line.split()
        if len(parts) == 2 and parts[0].isdigit():
            res[parts[0]] = parts[1]
    if len(res) != n:
        raise C.HarnessError(f"digests run for {engine} returned {len(res)} of {n} lines: {out.stdout[-500:]} {out.stderr[-500:]}")
    return res


def main(args) -> int:
    engines = [args.engine] if args.engine and args.engine != "conformance" else ([] if args.engine == "conformance" else list(ENGINES))
    bad = 0
    for eng in engines:
        for kwargs in ENGINES.get(eng, ["{}"]):
            # E2's abort faults fire at the k-th crossing of a seam inside pyrefact, and how often
            # pyrefact crosses a seam depends on *its* hash seed (set iteration inside the matcher);
            # subject and harness share one interpreter there, so that configuration keeps the seed.
            # The same holds for the two-trees profile, which draws tiny cache sizes: with a one-entry
            # parse cache fix_starred_imports gives incomplete expansions that follow pyrefact's own set
            # order (an effect of the altered sizes, which never counts as a violation, see DESIGN 10.4).
            # E3 imports: clients with several star imports make fix_starred_imports trace its set of undefined
            # names in pyrefact's own set order, i.e. the *order of the READ events* of one task follows the
            # hash seed of the process pyrefact runs in (the harness's workers); final trees are equal, the
            # event log is not.  One hash seed = one repeatable universe, so that profile keeps the seed too.
            second_seed = "0" if (eng == "e2_history" and ("faults" in kwargs or "trees" in kwargs)) or (eng == "e3_pool" and "imports" in kwargs) else "12345"
            a = _digests(eng, args.n, 16, "0", kwargs)
            b = _digests(eng, args.n, 5, second_seed, kwargs)
            diff = [s for s in a if a[s] != b.get(s)]
            harness = [s for s in a if a[s].startswith("HARNESS") or b[s].startswith("HARNESS")]
            print(f"selftest {eng} {kwargs}: {len(a)} seeds x 2 fresh interpreters (hashseed 0/{second_seed}, 16/5 workers): {len(diff)} digest differences, {len(harness)} harness errors")
            for s in diff[:5]:
                print("  DIFF seed", s, a[s], b.get(s))
            bad += len(diff) + len(harness)
    if args.engine in (None, "conformance"):
        from . import cli as _cli  # noqa: F401
        from . import e3_pool

        d = C.SCRATCH_ROOT / "cwd"
        d.mkdir(parents=True, exist_ok=True)
        os.chdir(d)
        C.import_pyrefact()
        problems = e3_pool.conformance(12)
        print(f"selftest conformance: SimPool vs multiprocessing.Pool on 12 trees x n_cores 1,3: {len(problems)} differences")
        for pr in problems[:5]:
            print("  ", pr)
        bad += len(problems)
    if bad:
        print("HARNESS-ERROR determinism self-test failed")
        return C.EXIT_HARNESS
    print("selftest ok")
    return 0
