"""Shared core of the simulator: seed derivation, event log + digest, isolated
(forked) run execution with hard timeouts, batch runner, delta debugging,
replay files, known findings, evidence files.

Nothing in here draws from a PRNG or reads a clock for a *decision*; wall-clock is
used only for timeouts, budgets and the wall_s field of evidence files.
"""
from __future__ import annotations

import hashlib
import json
import os
import pickle
import select
import signal
import sys
import time
import traceback
from pathlib import Path
from typing import Any, Callable, Dict, Iterable, List, Optional, Sequence

VERIF_DIR = Path(__file__).resolve().parent.parent
OUT_DIR = Path(os.environ.get("VERIF_OUT_DIR") or VERIF_DIR / "out")
REPLAY_DIR = OUT_DIR / "replays"
EVIDENCE_DIR = Path(os.environ.get("VERIF_EVIDENCE_DIR") or VERIF_DIR / "evidence")
KNOWN_FINDINGS = VERIF_DIR / "KNOWN_FINDINGS.txt"
REPO = Path(os.environ.get("VERIF_REPO", "/repo")).resolve()
SHM = Path("/dev/shm") if Path("/dev/shm").is_dir() else Path("/tmp")
SCRATCH_ROOT = SHM / "vsim"

EXIT_OK, EXIT_VIOLATION, EXIT_HARNESS = 0, 1, 2


# --------------------------------------------------------------------------- seeds

def derive_seed(base: int, *parts: Any) -> int:
    """H(VERIF_SEED, engine, property, i) -> 64-bit integer."""
    h = hashlib.sha256(repr((int(base),) + tuple(parts)).encode()).digest()
    return int.from_bytes(h[:8], "big")


def base_seed() -> int:
    try:
        return int(os.environ.get("VERIF_SEED", "0"))
    except ValueError:
        return 0


def sha(*objs: Any) -> str:
    h = hashlib.sha256()
    for o in objs:
        if isinstance(o, bytes):
            h.update(o)
        elif isinstance(o, str):
            h.update(o.encode("utf-8", "surrogatepass"))
        else:
            h.update(json.dumps(o, sort_keys=True, default=repr).encode())
        h.update(b"\0")
    return h.hexdigest()


class EventLog:
    """Append-only log of one run.  Global sequence numbers, no timestamps."""

    def __init__(self, seed: Any = None, keep: int = 400):
        self.n = 0
        self._h = hashlib.sha256()
        self.keep = keep
        self.head: List[str] = []
        self.tail: List[str] = []
        if seed is not None:
            self.add("seed", seed)

    def add(self, *fields: Any) -> None:
        line = f"{self.n}\t" + "\t".join(
            f if isinstance(f, str) else json.dumps(f, sort_keys=True, default=repr) for f in fields
        )
        self.n += 1
        self._h.update(line.encode("utf-8", "surrogatepass"))
        self._h.update(b"\n")
        if len(self.head) < self.keep:
            self.head.append(line)
        else:
            self.tail.append(line)
            if len(self.tail) > self.keep:
                del self.tail[0]

    def digest(self) -> str:
        return self._h.hexdigest()

    def lines(self) -> List[str]:
        return self.head + (["..."] if self.tail and self.n > 2 * self.keep else []) + self.tail


# --------------------------------------------------------------------------- isolation

class HarnessError(Exception):
    pass


def fork_call(fn: Callable, args: Sequence = (), timeout: float = 300.0, quiet: bool = True) -> Any:
    """Run fn(*args) in a forked child, return its (pickled) result.

    Raises HarnessError on timeout / child death / exception in the child (with
    the child's traceback as text).  The child gets its own process group so a
    timeout kills everything it started.
    """
    r, w = os.pipe()
    sys.stdout.flush()
    sys.stderr.flush()
    pid = os.fork()
    if pid == 0:  # child
        status = 1
        try:
            os.close(r)
            os.setpgid(0, 0)
            if quiet:
                devnull = os.open(os.devnull, os.O_RDWR)
                os.dup2(devnull, 0)
                if os.environ.get("VERIF_DEBUG") != "1":
                    os.dup2(devnull, 1)
                    os.dup2(devnull, 2)
            try:
                res = ("ok", fn(*args))
            except BaseException as exc:  # noqa: BLE001 - transported to parent
                res = ("exc", f"{type(exc).__name__}: {exc}\n{traceback.format_exc()}")
            data = pickle.dumps(res, protocol=pickle.HIGHEST_PROTOCOL)
            with os.fdopen(w, "wb") as f:
                f.write(data)
            status = 0
        finally:
            os._exit(status)
    os.close(w)
    chunks: List[bytes] = []
    deadline = time.monotonic() + timeout
    timed_out = False
    try:
        while True:
            left = deadline - time.monotonic()
            if left <= 0:
                timed_out = True
                break
            ready, _, _ = select.select([r], [], [], min(left, 5.0))
            if ready:
                b = os.read(r, 1 << 20)
                if not b:
                    break
                chunks.append(b)
    finally:
        os.close(r)
        if timed_out:
            for sig in (signal.SIGKILL,):
                try:
                    os.killpg(pid, sig)
                except (ProcessLookupError, PermissionError):
                    pass
                try:
                    os.kill(pid, sig)
                except ProcessLookupError:
                    pass
        try:
            os.waitpid(pid, 0)
        except ChildProcessError:
            pass
        # reap stragglers of the child's process group
        try:
            os.killpg(pid, signal.SIGKILL)
        except (ProcessLookupError, PermissionError):
            pass
    if timed_out:
        raise HarnessError(f"timeout after {timeout}s")
    data = b"".join(chunks)
    if not data:
        raise HarnessError("child died without a result")
    kind, val = pickle.loads(data)
    if kind == "exc":
        raise HarnessError("exception in run: " + val)
    return val


def _batch_worker(fn, items, idx_queue, res_conn, timeout):
    """Worker loop: takes indices, runs each item in its own fork."""
    try:
        while True:
            i = idx_queue.get()
            if i is None:
                break
            t0 = time.monotonic()
            try:
                res = fork_call(fn, (items[i],), timeout=timeout)
                msg = (i, "ok", res, time.monotonic() - t0)
            except HarnessError as e:
                msg = (i, "harness", str(e), time.monotonic() - t0)
            res_conn.send(msg)
    finally:
        res_conn.send(None)
        res_conn.close()


def run_batch(
    fn: Callable[[Any], Any],
    items: Sequence[Any],
    nproc: Optional[int] = None,
    timeout: float = 300.0,
    budget_s: Optional[float] = None,
    on_result: Optional[Callable[[int, str, Any], None]] = None,
) -> List[Any]:
    """Run fn(item) for every item, each in a fresh fork of this process, on
    nproc parallel workers.  Returns a list of (status, result) in item order;
    status is "ok", "harness" or "skipped" (budget exhausted before start).
    """
    import multiprocessing as mp

    ctx = mp.get_context("fork")
    nproc = max(1, min(nproc or default_nproc(), len(items) or 1))
    idx_queue = ctx.Queue()
    conns = []
    procs = []
    sys.stdout.flush()
    sys.stderr.flush()
    for _ in range(nproc):
        pr, pw = ctx.Pipe(duplex=False)
        p = ctx.Process(target=_batch_worker, args=(fn, items, idx_queue, pw, timeout), daemon=True)
        p.start()
        pw.close()
        conns.append(pr)
        procs.append(p)
    out: List[Any] = [("skipped", None)] * len(items)
    t_start = time.monotonic()
    next_i = 0
    inflight = 0
    live = set(conns)

    def feed() -> None:
        nonlocal next_i, inflight
        while inflight < nproc * 2 and next_i < len(items):
            if budget_s is not None and time.monotonic() - t_start > budget_s:
                next_i = len(items)
                break
            idx_queue.put(next_i)
            next_i += 1
            inflight += 1

    feed()
    sent_stop = False
    import multiprocessing.connection as mpc

    while live:
        if inflight == 0 and next_i >= len(items) and not sent_stop:
            for _ in range(nproc):
                idx_queue.put(None)
            sent_stop = True
        for c in mpc.wait(list(live), timeout=5.0):
            try:
                msg = c.recv()
            except EOFError:
                live.discard(c)
                continue
            if msg is None:
                live.discard(c)
                continue
            i, status, res, _dt = msg
            out[i] = (status, res)
            inflight -= 1
            if on_result is not None:
                on_result(i, status, res)
            feed()
        # dead worker detection
        for c, p in zip(conns, procs):
            if c in live and not p.is_alive() and not c.poll(0):
                live.discard(c)
    for p in procs:
        p.join(timeout=5)
        if p.is_alive():
            p.kill()
    return out


def default_nproc() -> int:
    try:
        n = int(os.environ.get("VERIF_NPROC", "0"))
    except ValueError:
        n = 0
    if n > 0:
        return n
    return max(1, min(16, os.cpu_count() or 1))


# --------------------------------------------------------------------------- ddmin

def ddmin(items: List[Any], test: Callable[[List[Any]], bool], max_tests: int = 400) -> List[Any]:
    """Classic delta debugging: smallest sublist (1-minimal within budget) for
    which test(sublist) is still True.  test(items) is assumed True."""
    n = 2
    tests = 0
    items = list(items)
    while len(items) >= 2 and tests < max_tests:
        chunk = max(1, len(items) // n)
        subsets = [items[i : i + chunk] for i in range(0, len(items), chunk)]
        reduced = False
        for i, _ in enumerate(subsets):
            complement = [x for j, s in enumerate(subsets) if j != i for x in s]
            tests += 1
            if complement and test(complement):
                items = complement
                n = max(n - 1, 2)
                reduced = True
                break
            if tests >= max_tests:
                break
        if not reduced:
            if n >= len(items):
                break
            n = min(len(items), n * 2)
    if len(items) == 1 and tests < max_tests:
        if test([]):
            return []
    return items


# --------------------------------------------------------------------------- replay files

def write_replay(prop: str, seed: int, obj: Dict[str, Any]) -> Path:
    REPLAY_DIR.mkdir(parents=True, exist_ok=True)
    body = json.dumps(obj, indent=1, sort_keys=True, default=repr)
    name = f"{prop}-{seed:016x}-{hashlib.sha256(body.encode()).hexdigest()[:10]}.json"
    path = REPLAY_DIR / name
    path.write_text(body)
    return path


def read_replay(path: str) -> Dict[str, Any]:
    return json.loads(Path(path).read_text())


# --------------------------------------------------------------------------- known findings

class KnownFindings:
    """finding: property=<id> key=<signature> <text>   |   fixed: property=<id> <commit> <text>

    Only `finding:` lines suppress; they match when the violation's property is
    the same and its signature equals (or, for a trailing '*', starts with) the
    key.  The file is never written at run time.
    """

    def __init__(self, path: Path = KNOWN_FINDINGS):
        self.findings: List[Dict[str, str]] = []
        self.fixed: List[str] = []
        if path.exists():
            for raw in path.read_text().splitlines():
                line = raw.strip()
                if not line or line.startswith("#"):
                    continue
                if line.startswith("finding:"):
                    rest = line[len("finding:") :].strip()
                    parts = rest.split(None, 2)
                    d = {"property": "", "key": "", "text": ""}
                    for p in parts[:2]:
                        if p.startswith("property="):
                            d["property"] = p.split("=", 1)[1]
                        elif p.startswith("key="):
                            d["key"] = p.split("=", 1)[1]
                    d["text"] = parts[2] if len(parts) > 2 else ""
                    self.findings.append(d)
                elif line.startswith("fixed:"):
                    self.fixed.append(line)

    def match(self, prop: str, signature: str) -> Optional[Dict[str, str]]:
        for f in self.findings:
            if f["property"] != prop:
                continue
            k = f["key"]
            if k.endswith("*"):
                if signature.startswith(k[:-1]):
                    return f
            elif signature == k:
                return f
        return None


# --------------------------------------------------------------------------- evidence

def write_evidence(
    prop: str,
    tier: str,
    seed: int,
    coverage: Dict[str, Any],
    wall_s: float,
    violations: int,
    assumptions: Iterable[str] = (),
    level: str = "exploration",
) -> Path:
    EVIDENCE_DIR.mkdir(parents=True, exist_ok=True)
    obj = {
        "property_id": prop,
        "tier": tier,
        "seed": int(seed),
        "level": level,
        "coverage": coverage,
        "assumptions": list(assumptions),
        "wall_s": round(float(wall_s), 3),
        "violations": int(violations),
    }
    path = EVIDENCE_DIR / f"{prop}.json"
    tmp = path.with_suffix(".json.tmp")
    tmp.write_text(json.dumps(obj, indent=1, sort_keys=True, default=repr) + "\n")
    os.replace(tmp, path)
    return path


class Counter(dict):
    """dict of ints with += on missing keys and element-wise merge."""

    def inc(self, key: str, n: int = 1) -> None:
        self[key] = self.get(key, 0) + n

    def merge(self, other: Dict[str, int]) -> None:
        for k, v in other.items():
            self[k] = self.get(k, 0) + v


def import_pyrefact():
    """Import pyrefact from the repo under test (VERIF_REPO, default /repo)."""
    repo = str(REPO)
    if sys.path[0] != repo:
        sys.path.insert(0, repo)
    import logging

    import pyrefact  # noqa: F401
    import pyrefact.main  # noqa: F401

    mod = sys.modules["pyrefact.main"]
    src = Path(mod.__file__).resolve()
    if REPO not in src.parents:
        raise HarnessError(f"pyrefact imported from {src}, not from {REPO}")
    from pyrefact import logs

    logs.set_level(100)
    logging.disable(logging.CRITICAL)
    return mod


class scratch_lock:
    """Exclusive lock for one scratch root.  Roots are named after the run seed so that a replay sees the
    same absolute paths; two checks running side by side with the same seed (same batch label in two
    properties, a check next to a replay) would otherwise work in the same directory."""

    def __init__(self, root):
        self.path = str(root).rstrip("/") + ".lock"
        self.fd = None

    def __enter__(self):
        import fcntl

        os.makedirs(os.path.dirname(self.path), exist_ok=True)
        self.fd = os.open(self.path, os.O_CREAT | os.O_RDWR, 0o644)
        fcntl.flock(self.fd, fcntl.LOCK_EX)
        return self

    def __exit__(self, *exc):
        import fcntl

        try:
            fcntl.flock(self.fd, fcntl.LOCK_UN)
        finally:
            os.close(self.fd)
        return False
