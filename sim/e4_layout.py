"""E4 layout-sim: the same call in differently laid-out interpreters.

A layout is (PYTHONHASHSEED, heap shift n, node-hash key K); one layout tuple is
one repeatable set-iteration universe (ASLR is off).  Real code: all of pyrefact.
Stub: nothing.  The reference is the canonical layout L0 = (0, 0, 0).
"""
from __future__ import annotations

import json
import os
import pickle
import random
import subprocess
import sys
from pathlib import Path
from typing import Any, Dict, List, Optional, Tuple

from . import core as C
from . import e2_history
from . import gen

ZYGOTE = Path(__file__).with_name("e4_zygote.py")
L0 = {"hashseed": 0, "shift": 0, "key": 0}


class Zygote:
    def __init__(self, layout: Dict[str, int]):
        # A fixed, minimal environment: the interpreter copies its environment into heap objects
        # at start-up, so any ambient variable would shift every later address and with it the layout.
        env = {
            "PATH": "/usr/local/bin:/usr/bin:/bin",
            "HOME": "/tmp",
            "LANG": "C.UTF-8",
            "PYTHONHASHSEED": str(layout["hashseed"]),
            "PYTHONDONTWRITEBYTECODE": "1",
            "PYTHONWARNINGS": "ignore",
        }
        py = os.environ.get("VERIF_PYTHON", "/venv/bin/python")
        self.p = subprocess.Popen(
            ["setarch", os.uname().machine, "-R", py, str(ZYGOTE), str(layout["shift"]), str(layout["key"]), str(C.REPO), str(e2_history.E2_CWD)],
            stdin=subprocess.PIPE, stdout=subprocess.PIPE, stderr=subprocess.DEVNULL, env=env, text=True, bufsize=1,
        )
        line = self.p.stdout.readline()
        if not line:
            raise C.HarnessError("layout zygote did not start")
        self.probe = json.loads(line)["probe"]

    def ask(self, op: Dict[str, Any]) -> Dict[str, Any]:
        self.p.stdin.write(json.dumps(op) + "\n")
        self.p.stdin.flush()
        line = self.p.stdout.readline()
        if not line:
            raise C.HarnessError("layout zygote died")
        ans = json.loads(line)
        if ans["res"][0] == "harness":
            raise C.HarnessError("layout zygote child died")
        return ans

    def close(self) -> None:
        try:
            self.p.stdin.write(json.dumps({"op": "QUIT"}) + "\n")
            self.p.stdin.flush()
            self.p.stdin.close()
        except (OSError, ValueError):
            pass
        try:
            self.p.wait(timeout=10)
        except subprocess.TimeoutExpired:
            self.p.kill()


def _memo_path(op: Dict[str, Any]) -> Path:
    key = C.sha("e4-L0", op)
    return e2_history.MEMO_ROOT / ("e4-" + repo_hash()) / key[:2] / key


_RH: Optional[str] = None


def repo_hash() -> str:
    global _RH
    if _RH is None:
        parts = []
        for p in sorted((C.REPO / "pyrefact").rglob("*.py")):
            parts.append(p.read_bytes())
        parts.append(ZYGOTE.read_bytes())
        parts.append(json.dumps(e2_history.STATIC_TREE, sort_keys=True))
        _RH = C.sha(*parts)[:20]
    return _RH


def generate(rng: random.Random, profile: Optional[Dict[str, Any]] = None) -> Dict[str, Any]:
    from . import rules as R

    profile = profile or {}
    corp = gen.corpus()
    rule_names = list(R.harvest())
    layout = {
        "hashseed": rng.randrange(1, 1 << 30),
        "shift": rng.choice([0, 1, 2, 3, 5, 8, 13, 21, 34]),
        "key": rng.choice([0, rng.randrange(1, 1 << 62), rng.randrange(1, 1 << 62), rng.randrange(1, 1 << 62)]),
    }
    ops: List[Dict[str, Any]] = []
    if profile.get("index") is not None:
        entries = corp[profile["index"] :: profile["of"]]
        for e in entries:
            ops.append({"op": "FMT", "x": e["source"]})
            r = gen.origin_rule(e, rule_names)
            if r:
                ops.append({"op": "RULE", "rule": r, "x": e["source"]})
    else:
        n_ops = profile.get("ops", 14)
        from . import e1_txn

        for _ in range(n_ops):
            r = rng.random()
            if r < 0.2:
                case = e1_txn.strip_case(e1_txn.generate(rng, {"no_faults": rng.random() < 0.5}))
                ops.append({"op": "TXN", "x": case["source"], "case": case})
                continue
            if r < 0.45:
                x = gen.gen_module(rng, process_dependent=True, special=True)
                ops.append({"op": "FMT", "x": x})
            elif r < 0.78:
                e = rng.choice(corp)
                x = gen.pick_input(rng, corp, e)
                op = {"op": "FMT", "x": x}
                if rng.random() < 0.25:
                    op["safe"] = True
                if rng.random() < 0.2:
                    op["preserve"] = sorted(gen.some_names(rng, x))
                ops.append(op)
            else:
                e = rng.choice(corp)
                rr = gen.origin_rule(e, rule_names) if rng.random() < 0.7 else None
                ops.append({"op": "RULE", "rule": rr or rng.choice(rule_names), "x": e["source"]})
    return {"engine": "e4", "layout": layout, "ops": ops}


def _classify(trace_a: List[List[str]], trace_b: List[List[str]]) -> Optional[str]:
    """Which evaluated constant expression got a layout-dependent value?"""
    vals_a = {}
    for src, val in trace_a:
        vals_a.setdefault(src, val)
    for src, val in trace_b:
        if src in vals_a and vals_a[src] != val:
            if "hash(" in src or "id(" in src:
                return "literal_value:hash-or-id:" + ("hash" if "hash(" in src else "id")
            if "{" in src or "set(" in src:
                return "literal_value:set-iteration-order"
            return "literal_value:other"
    return None


def execute(case: Dict[str, Any]) -> Dict[str, Any]:
    e2_history.ensure_static_tree()
    log = C.EventLog(case.get("seed"))
    stats = C.Counter()
    violations: List[Dict[str, Any]] = []
    signatures: List[Tuple[str, bool]] = []
    layout = case["layout"]
    log.add("layout", layout)
    z = Zygote(layout)
    z0: Optional[Zygote] = None
    try:
        p0 = None
        pp = _memo_path({"probe": True})
        try:
            p0 = pickle.loads(pp.read_bytes())
        except (OSError, EOFError, pickle.UnpicklingError):
            pass
        if p0 is None or os.environ.get("VERIF_NO_MEMO") == "1":
            z0 = Zygote(L0)
            p0 = z0.probe
            pp.parent.mkdir(parents=True, exist_ok=True)
            tmp = pp.with_name(pp.name + f".{os.getpid()}.tmp")
            tmp.write_bytes(pickle.dumps(p0))
            os.replace(tmp, pp)
        differs = {k: z.probe[k] != p0[k] for k in p0}
        for k, d in differs.items():
            if d:
                stats.inc(f"fault.layout_permuted_set_of_{k}")
        nontrivial_layout = all(differs.values()) if layout["key"] else (differs["names"] and (differs["types"] or layout["shift"] == 0))
        log.add("probe", z.probe)
        lsig = C.sha(z.probe)[:10]
        for i, op in enumerate(case["ops"]):
            ans = z.ask(op)
            stats.inc("steps")
            mp = _memo_path(op)
            ref = None
            if os.environ.get("VERIF_NO_MEMO") != "1":
                try:
                    ref = pickle.loads(mp.read_bytes())
                    stats.inc("reference.memo_hits")
                except (OSError, EOFError, pickle.UnpicklingError):
                    ref = None
            if ref is None:
                if z0 is None:
                    z0 = Zygote(L0)
                ref = z0.ask(op)
                stats.inc("reference.computed")
                try:
                    mp.parent.mkdir(parents=True, exist_ok=True)
                    tmp = mp.with_name(mp.name + f".{os.getpid()}.tmp")
                    tmp.write_bytes(pickle.dumps(ref))
                    os.replace(tmp, mp)
                except OSError:
                    pass
            log.add("op", i, op["op"], op.get("rule", ""), C.sha(op["x"])[:12], C.sha(ans["res"])[:16])
            signatures.append((f"{lsig}|{C.sha(op)[:12]}", bool(nontrivial_layout)))
            if ans["res"][0] == "exc":
                stats.inc("op.raised")
            if ans["trace"]:
                stats.inc("ops_with_constant_evaluation")
            if ans["res"] != ref["res"] and op["op"] == "RULE":
                # A single rule is not an entry point of "formatting a text" (the statement's subject);
                # format_code re-normalises after it (e.g. sort_imports).  Recorded, not judged.
                stats.inc("observed.single_rule_output_layout_dependent." + op["rule"])
            elif ans["res"] != ref["res"]:
                stats.inc("divergences")
                cause = _classify(ref["trace"], ans["trace"])
                v = {
                    "class": "output-depends-on-process-layout",
                    "detail": f"op #{i} {op['op']} {op.get('rule', '')}: result under layout {layout} differs from the canonical layout; cause={cause}; "
                              f"canonical={str(ref['res'])[:160]!r} here={str(ans['res'])[:160]!r}",
                    "props": ["C06"],
                    "op": i,
                }
                if cause:
                    v["finding_key"] = cause
                violations.append(v)
                if not case.get("keep_going"):
                    break
    finally:
        z.close()
        if z0 is not None:
            z0.close()
    log.add("verdict", [v["class"] for v in violations])
    return {
        "violations": violations, "violation": violations[0] if violations else None,
        "digest": log.digest(), "stats": dict(stats), "signatures": signatures,
        "evaluations": max(1, len(case["ops"])), "log": log.lines() if violations else None,
    }


def run_seed(seed: int, **profile) -> Dict[str, Any]:
    rng = random.Random(seed)
    case = generate(rng, profile)
    case["seed"] = seed
    res = execute(case)
    res["seed"] = seed
    if res["violations"]:
        res["case"] = case
    if seed % 13 == 0 or res["violations"]:
        res["sample"] = {"layout": case["layout"], "ops": [{k: (v[:200] if isinstance(v, str) else v) for k, v in op.items() if k != "case"} for op in case["ops"][:3]]}
    return res


def shrink(case: Dict[str, Any], vclass: str, still_fails) -> Dict[str, Any]:
    ops = C.ddmin(case["ops"], lambda o: bool(o) and still_fails(dict(case, ops=o)), max_tests=24)
    if ops:
        case = dict(case, ops=ops)
    for key in ("key", "shift"):
        if case["layout"][key]:
            c = dict(case, layout=dict(case["layout"], **{key: 0}))
            if still_fails(c):
                case = c
    return case


COMPONENTS = {
    "real": ["all of pyrefact, in an interpreter exec'd with the layout's PYTHONHASHSEED, ASLR off, heap shifted before `import ast`, ast.AST.__hash__ replaced by a keyed mix of id()"],
    "stub": ["nothing (core.literal_value is wrapped by a recorder that only observes which constant expressions were evaluated to what)"],
}


def props_of(v: Dict[str, Any]) -> List[str]:
    return ["C06"]
