"""Shared workload generators: vendored corpus, input variants, generated modules."""
from __future__ import annotations

import ast
import json
import random
import re
from typing import Any, Dict, List, Optional, Set

from . import core as C

_CORPUS: Optional[List[Dict[str, Any]]] = None


def corpus() -> List[Dict[str, Any]]:
    global _CORPUS
    if _CORPUS is None:
        _CORPUS = json.loads((C.VERIF_DIR / "corpus" / "snippets.json").read_text())
    return _CORPUS


# clients of the static package tree that E2 / E4 run in (sim/e2_history.STATIC_TREE)
STATIC_TREE_CLIENTS = [
    'from vs_pure import dumps\n\nprint(dumps({"a": 1}))\n',
    "from vs_fast import dumps\n\nprint(dumps([1, 2]))\n",
    "from vs_reexport import lib_func, shown_alias\n\nprint(lib_func(1), shown_alias())\n",
    "from vs_pkg import *\n\nprint(pkg_func())\n",
    "from vs_lib import *\n\nprint(lib_func(2), LIB_CONST, LibClass)\n",
    "from vs_all import *\nfrom vs_lib import *\n\nprint(shown(), lib_func(3))\n",
    "import vs_pkg.mod\nfrom vs_reexport import LibClass\n\nprint(vs_pkg.mod.other_func(), LibClass)\n",
    "from vs_pkg2.shapes import area\n\nprint(area(3))\n",
    "from vs_pkg2 import *\n\nprint(area(2), perimeter(2))\n",
    "from vs_pkg.mod import other_func\n\nprint(other_func())\n",
]


def with_ignore(rng: random.Random, text: str) -> str:
    """Put an ignore comment on a random code line: a rule still *computes* its
    replacement (and may mutate the cached tree) while the transaction is
    rejected, so the text -- the cache key -- stays the same for the next rule."""
    lines = text.split("\n")
    cand = [i for i, l in enumerate(lines) if l.strip() and "#" not in l and not l.rstrip().endswith(("'''", '"""', "\\"))]
    if not cand:
        return text
    i = rng.choice(cand)
    lines[i] = lines[i] + "  # pyrefact: ignore"
    new = "\n".join(lines)
    try:
        ast.parse(new)
    except (SyntaxError, ValueError):
        return text
    return new


def origin_rule(entry: Dict[str, Any], rule_names: List[str]) -> Optional[str]:
    """tests/unit/test_<rule>.py -> the harvested rule of that name (the snippet is
    one of that rule's own example inputs, so the rule fires on it)."""
    stem = entry["origin"].rsplit("/", 1)[-1]
    if not stem.startswith("test_"):
        return None
    want = stem[5:-3].replace("-", "_")
    for name in rule_names:
        if name.split(".", 1)[1] == want:
            return name
    return None


def pick_entry(rng: random.Random, corp: List[Dict[str, Any]], rule_names: List[str]):
    """(text, rule that is known to fire on it or None)."""
    entry = rng.choice(corp)
    text = pick_input(rng, corp, entry)
    return text, origin_rule(entry, rule_names)


def near_twins(rng: random.Random):
    """Two modules that share a function text verbatim but differ in what it calls:
    the helper is pure in one and has a side effect in the other, so a bare call of
    the shared function is pointless in the first module only.  Whatever is learnt
    about the shared text in one module must not be applied to the other."""
    k = rng.randrange(1000)
    helper, shared = f"helper_{k}", f"shared_{k}"
    pure = f"def {helper}(x):\n    return x + {rng.randint(1, 9)}\n"
    impure = rng.choice([
        f"def {helper}(x):\n    print(x)\n    return x + 1\n",
        f"LOG = []\n\n\ndef {helper}(x):\n    LOG.append(x)\n    return x + 1\n",
        f"import os\n\n\ndef {helper}(x):\n    os.remove(x)\n    return 1\n",
    ])
    body = rng.choice([f"    return {helper}(x)\n", f"    y = {helper}(x)\n    return y * 2\n", f"    if x:\n        return {helper}(x)\n    return 0\n"])
    common = f"\n\ndef {shared}(x):\n{body}\n\n{shared}(3)\nprint({shared}(1))\n"
    return pure + common, impure + common


def with_blank_runs(rng: random.Random, text: str) -> str:
    """Insert a run of 3-5 blank lines in front of a statement inside an indented
    block (layout passes must not eat the indentation that follows such a run)."""
    lines = text.split("\n")
    cand = [i for i in range(1, len(lines)) if lines[i].startswith("    ") and lines[i].strip() and lines[i - 1].strip()
            and not lines[i - 1].rstrip().endswith((":", ",", "(", "[", "{", "\\")) and not lines[i].lstrip().startswith(("elif", "else", "except", "finally", ")", "]", "}"))]
    if not cand:
        return text
    i = rng.choice(cand)
    blank = rng.choice(["", "", "    "])
    new = "\n".join(lines[:i] + [blank] * rng.randint(3, 5) + lines[i:])
    try:
        ast.parse(new)
    except (SyntaxError, ValueError):
        return text
    return new


def pick_input(rng: random.Random, corp: List[Dict[str, Any]], entry: Optional[Dict[str, Any]] = None) -> str:
    if entry is None and rng.random() < 0.1:
        return with_blank_runs(rng, pick_input(rng, corp, rng.choice(corp)))
    r = rng.random()
    base = (entry or rng.choice(corp))["source"]
    if r < 0.62:
        return base
    if r < 0.80:
        return with_ignore(rng, base)
    if r < 0.92:
        # two snippets in one module: rule interactions, longer texts
        other = rng.choice(corp)["source"]
        joined = base.rstrip("\n") + "\n\n\n" + other.lstrip("\n")
        try:
            ast.parse(joined)
            return joined
        except (SyntaxError, ValueError):
            return base
    return gen_module(rng)


def some_names(rng: random.Random, text: str) -> Set[str]:
    names = sorted(set(re.findall(r"\b[A-Za-z_][A-Za-z0-9_]*\b", text)))
    if not names:
        return set()
    k = rng.randint(0, min(4, len(names)))
    return set(rng.sample(names, k))


# --------------------------------------------------------------------------- generated modules

_PROCESS_DEPENDENT = [
    'hash("abc") > 0', 'hash("pyrefact") % 2 == 0', 'hash(("a", "b")) % 3 == 1',
    'str({"a", "b", "c"}) == "{\'a\', \'b\', \'c\'}"', 'list({"x", "y", "z"})[0] == "x"',
    'tuple({"p", "q"}) == ("p", "q")', '"".join({"a", "b"}) == "ab"', 'repr({"k", "l", "m"})[2] == "k"',
    'sorted({"b", "a"}) == ["a", "b"]', 'len({"a", "b"}) == 2', 'min({"u", "v"}) == "u"',
    'id(None) % 16 == 0', 'hash(1.5) == 1', 'hash("") == 0', 'str(frozenset({"r", "s"}))[11] == "r"',
    'list(set("hello"))[0] == "h"', 'next(iter({"one", "two", "three"})) == "one"',
    '"abc".__hash__() > 0', '"%s" % {"a", "b"} == "{\'a\', \'b\'}"', '"{}".format({"x", "y"}) == "{\'x\', \'y\'}"',
    '"-".join({"p", "q", "r"}) == "p-q-r"', '("%s" % ({"m", "n"},))[2] == "m"', 'f"{ {1, 2} }" == "{1, 2}"',
    '"abc".__hash__() % 2 == 0', 'str({"k": {"a", "b"}})[8] == "a"', 'sorted({"b", "a"})[0] == "a"', '[*{"u", "v"}] == ["u", "v"]',
    '(*{"u", "v"},) == ("u", "v")', 'dict.fromkeys({"a", "b"}) == {"a": None, "b": None}', 'list(dict.fromkeys({"a", "b"}))[0] == "a"',
    # strings (or bytes) nested inside the elements: the order still follows the hash seed
    'tuple({("alpha", 1), ("beta", 2)}) == (("alpha", 1), ("beta", 2))', 'list({("a", 1), ("b", 2), ("c", 3)})[0] == ("a", 1)',
    'str({("x",), ("y",)}) == "{(\'x\',), (\'y\',)}"', 'list({frozenset({"a"}), frozenset({"b"})})[0] == frozenset({"a"})',
    'tuple({b"one", b"two"}) == (b"one", b"two")', 'list({(1, ("deep", 2)), (2, ("deeper", 3))})[0][0] == 1',
    'list({None, "n"})[0] is None', 'tuple({1.5, "s"})[0] == 1.5', 'list({("k", 1): 0, ("l", 2): 1})[0] == ("k", 1)',
    'str(set(("a", "b"))) == "{\'a\', \'b\'}"', 'list(frozenset(["p", "q"]))[0] == "p"', 'list({"a", "b"} | {"c"})[0] == "a"',
    'list({"a": 1, "b": 2}.keys() & {"a", "b"})[0] == "a"', 'max({"a": 1}.items() | {("b", 2)}) == ("b", 2)',
]


SPECIAL_BLOCKS = ("doc", "spell", "deep", "settle", "loader", "overused", "boolexpr", "decofirst", "twostep", "renames", "dupfuncs", "peel")


def gen_module(rng: random.Random, process_dependent: bool = False, special: bool = False, force: Optional[str] = None) -> str:
    """A small module that triggers a handful of rules: unused code, loops to
    comprehensions, redundant elses, constant conditions, unsorted imports."""
    k = [0]

    def name(prefix: str = "v") -> str:
        k[0] += 1
        return f"{prefix}{k[0]}"

    parts: List[str] = []
    if force == "twostep" or (force is None and special and rng.random() < 0.08):
        # one string that two rules of the same single-run chain want to rewrite (overlapping ranges): the
        # chain needs two productive rounds, so the text half way is a text of its own
        esc = rng.choice(["\\d+", "\\w", "\\s*", "\\."])
        fn = rng.choice(["info", "warning", "debug", "error"])
        forms = [
            f'logging.{fn}("found {esc} in {{}}".format(x))',
            f'logging.{fn}("found {esc} in %s" % x)',
            f'logging.{fn}(f"found {esc} in {{x}}")',
            f'logger.{fn}("saw {esc} and {{}} and {{}}".format(x, y))',
        ]
        n = rng.randint(1, 3)
        picked = [forms[0]] + [rng.choice(forms) for _ in range(n - 1)]
        rng.shuffle(picked)
        body = "".join(f"    {f_}\n" for f_ in picked)
        if rng.random() < 0.5:
            # the plain shape: one call, nothing else for other rules to do
            body = f"    {forms[0]}\n"
            text = "import logging\n\n\ndef _report(x):\n" + body + "    return x\n\n\nprint(_report(3))\n"
        else:
            text = "import logging\n\nlogger = logging.getLogger(__name__)\n\n\ndef report(x, y):\n" + body + "    return x\n\n\nprint(report(1, 2))\n"
        import warnings

        try:
            with warnings.catch_warnings():
                warnings.simplefilter("ignore")
                ast.parse(text)
            return text
        except (SyntaxError, ValueError):
            pass
    if force == "peel" or (force is None and special and rng.random() < 0.04):
        # a dependency chain that can only be taken apart from one end: the last import is unused; once it is
        # gone the `if` that guarded it is pointless; once that is gone the import it tested is unused; ...
        n = rng.randint(3, 8)
        mods = [f"{rng.choice(['m', 'mod', 'dep'])}{i}" for i in range(n)]
        attr = rng.choice(["f", "enabled", "HAVE_NEXT"])
        lines = [f"import {mods[-1]}"]
        for kk in range(n - 1, 0, -1):
            lines.append(f"if {mods[kk]}.{attr}:\n    import {mods[kk - 1]}")
        return "\n".join(lines) + "\n"
    if force == "dupfuncs" or (force is None and special and rng.random() < 0.06):
        # duplicate functions whose bodies call other duplicates: removing one pair renames uses (to a shorter
        # or longer name) on lines that lie in front of / inside the other pair
        short, long_ = rng.choice([("f", "helper_two"), ("compute_the_total_sum", "g"), ("k2", "second_helper_function")])
        first, second = rng.choice([("first", "second"), ("alpha_function", "b"), ("a", "beta_function")])
        body = rng.choice(["    return 1\n", "    x = 1\n    return x + 1\n"])
        call = rng.choice(["    return (other(), other(), {d}())\n", "    print({d}(), a); return {d}()\n", "    return [{d}() for _ in range(a)] + [other()]\n"])
        text = (
            f"def {short}():\n{body}\n\ndef other():\n    return 2\n\n\ndef {long_}():\n{body}\n\n"
            f"def {first}(a):\n    print(a)\n{call.format(d=long_)}\n\ndef {second}(a):\n    print(a)\n{call.format(d=long_)}\n\n"
            f"print({first}(1), {second}(2), {short}(), {long_}())\n"
        )
        try:
            ast.parse(text)
            return text
        except (SyntaxError, ValueError):
            pass
    if force == "renames" or (force is None and special and rng.random() < 0.06):
        # many definitions that all want a new name and mention each other: every renaming is one
        # transaction over the definition and all its references, so the transactions overlap pairwise
        n = rng.randint(6, 9)
        style = rng.choice(["camel", "camel", "Upper"])
        names = [(f"computeValue{chr(65 + i)}" if style == "camel" else f"Compute_Value_{chr(65 + i)}") for i in range(n)]
        chunks = []
        for i, nm in enumerate(names):
            used = names[:i] if rng.random() < 0.7 else rng.sample(names[:i], min(len(names[:i]), 2))
            expr = " + ".join([f"{u}(x)" for u in used] + [str(i + 1)])
            chunks.append(f"def {nm}(x):\n    return {expr}\n")
        text = "\n\n".join(chunks) + f"\n\nprint({names[-1]}(1))\n"
        try:
            ast.parse(text)
            return text
        except (SyntaxError, ValueError):
            pass
    if force == "doc" or (force is None and process_dependent and rng.random() < 0.35):
        # a multi-line module docstring in front of names that are used but never imported: where and
        # in which order the guessed imports are inserted must not depend on set iteration
        names = rng.sample(["os", "sys", "re", "json", "math", "itertools", "functools", "random"], rng.randint(2, 4))
        doc = rng.choice(['"""Module doc.\n\nSecond paragraph of the docstring.\n"""', "\'\'\'Summary line\n\nmore text\nand more\n\'\'\'", '"""One line docstring."""'])
        uses = "".join(f"print({n}.__name__)\n" for n in names)
        text = doc + "\n" + uses
        try:
            ast.parse(text)
            return text
        except (SyntaxError, ValueError):
            pass
    if force == "spell" or (force is None and process_dependent and rng.random() < 0.3):
        # the same string value in several spellings, next to code a rule re-renders: which original
        # spelling is restored must not depend on set iteration
        val = rng.choice(["abc", "some text", "x-y-z", "path/to/file"])
        spellings = rng.sample([f'"{val}"', f"\'{val}\'", f'"""{val}"""', f"\'\'\'{val}\'\'\'", f'r"{val}"'], rng.randint(2, 4))
        lines = [f"s{i} = {sp}" for i, sp in enumerate(spellings)]
        lines.append(rng.choice([f'z = tuple(["{val}", 1])', f'z = list(("{val}", 2))', f'z = set(["{val}"])', f'w = [x for x in ["{val}"]]\nz = list(w)']))
        lines.append("print(z, " + ", ".join(f"s{i}" for i in range(len(spellings))) + ")")
        text = "\n".join(lines) + "\n"
        try:
            ast.parse(text)
            return text
        except (SyntaxError, ValueError):
            pass
    if force == "decofirst" or (force is None and special and rng.random() < 0.08):
        # the first real statement is a decorated definition, and names are used that are never imported:
        # whatever gets inserted must not come between a decorator and its definition
        mods = rng.sample(["os", "sys", "re", "json", "math"], rng.randint(1, 2))
        deco = rng.choice(["functools.lru_cache(maxsize=None)", "functools.wraps(print)", "dataclasses.dataclass", "contextlib.contextmanager"])
        head = rng.choice(['"""Module docstring."""\n', "", '"""Doc.\n\nMore.\n"""\n', "from __future__ import annotations\n"])
        if deco.startswith("dataclasses"):
            body = f"@{deco}\nclass Holder:\n    value: int = 0\n\n    def show(self):\n        return {mods[0]}.__name__\n"
            tail = "print(Holder().show())\n"
        elif deco.startswith("contextlib"):
            body = f"@{deco}\ndef managed(x):\n    yield {mods[0]}.__name__\n"
            tail = "print(managed(1))\n"
        else:
            body = f"@{deco}\ndef cached(x):\n    return {mods[0]}.__name__, x\n"
            tail = "print(cached(1))\n"
        extra = "".join(f"print({m}.__name__)\n" for m in mods[1:])
        text = head + body + "\n\n" + tail + extra
        try:
            ast.parse(text)
            return text
        except (SyntaxError, ValueError):
            pass
    if force == "boolexpr" or (force is None and special and rng.random() < 0.12):
        # redundant boolean expressions over opaque operands (calls): the symbolic simplifier rewrites
        # them, and in which order it emits the operands must not depend on anything but the text
        funcs = []
        for i in range(rng.randint(2, 4)):
            ops_ = [f"{rng.choice(['is_ok', 'has', 'check', 'valid', 'ready'])}_{name('p')}({rng.choice('abc')})" for _ in range(rng.randint(2, 4))]
            x, y = ops_[0], ops_[1]
            z = ops_[2] if len(ops_) > 2 else ops_[0]
            w = ops_[3] if len(ops_) > 3 else ops_[1]
            shape = rng.choice([
                "{x} and ({y} or {z}) and {x}", "({x} and {y}) or ({x} and {z})", "not (not {x} or not {y})",
                "{x} or ({x} and {y}) or {z}", "({x} or {y}) and ({x} or {z}) and {w}", "{x} and {y} and ({z} or {w} or {x})",
                "not {x} and not {y} or not ({z} or {w})",
            ]).format(x=x, y=y, z=z, w=w)
            funcs.append(f"def decide_{name('f')}(a, b, c):\n    return {shape}\n")
        text = "\n\n".join(funcs) + "\n\nprint(" + ", ".join(f.split("(")[0][4:] for f in funcs) + ")\n"
        try:
            ast.parse(text)
            return text
        except (SyntaxError, ValueError):
            pass
    if force == "deep" or (force is None and special and rng.random() < 0.15):
        # deep nesting: the width left for a statement falls below black's floor of 60 columns, so
        # "fits in context" and "fits on its own" disagree - a classic split / join oscillation
        depth = rng.randint(5, 11)
        heads = ["if {v}:", "for {v} in {v}s:", "while {v}:", "with {v} as ctx_{v}:", "if not {v}:"]
        lines = ["def deep_nest(values):"]
        ind = 4
        for d in range(depth):
            lines.append(" " * ind + rng.choice(heads).format(v=f"v{d}"))
            ind += 4
        call = rng.choice([
            "result = compute_value(first_argument, second_argument, third)",
            "total = accumulate(values, initial_value, step_size, limit)",
            "print(describe(values, separator, prefix, suffix, width))",
            "outcome = [transform(item, factor) for item in values if item]",
        ])
        lines.append(" " * ind + call)
        lines.append(" " * ind + "return values")
        text = "\n".join(lines) + "\n\n\nprint(deep_nest([1]))\n"
        try:
            ast.parse(text)
            return text
        except (SyntaxError, ValueError):
            pass
    if force == "settle" or (force is None and special and rng.random() < 0.2):
        # branches that return, with left-over statements after a return: the shapes on which
        # swap_if_else / remove_redundant_else / early_return undo each other across passes
        f = name("settle")
        a, b = name("order"), name("ledger")
        cmp1 = rng.choice(["!= 0", "== 0", "> 0", "is None", "is not None"])
        n_work = rng.randint(1, 3)
        work = "".join(f"            {b}.step_{i}({a}.account, {a}.amount)\n" for i in range(n_work))
        tail = rng.choice([
            f"        return None\n        if {a}.amount > 1000:\n            {b}.flag({a})\n",
            f"        return None\n",
            f"        else:\n            return None\n            {b}.flag({a})\n",
            f"        {b}.note({a})\n        return None\n        {b}.flag({a})\n",
        ])
        if tail.lstrip().startswith("else"):
            body = f"    if {a}.open:\n        if {a}.amount {cmp1}:\n{work}            return {a}.amount\n{tail}"
        else:
            body = f"    if {a}.open:\n        if {a}.amount {cmp1}:\n{work}            return {a}.amount\n{tail}"
        extra = rng.choice(["", f"    return {a}\n", f"    else:\n        return 0\n"])
        text = f"def {f}({a}, {b}):\n{body}{extra}\n\nprint({f}(None, None))\n"
        try:
            ast.parse(text)
            return text
        except (SyntaxError, ValueError):
            pass
    if force == "loader" or (force is None and rng.random() < (0.25 if special else 0.06)):
        # imports inside an indented block next to a multi-line statement that has a less indented
        # line (text of a triple-quoted string, a closing bracket in column 0), the block going on
        mods = rng.sample(["os", "sys", "re", "json", "math"], 2)
        ml = rng.choice([
            'text = """\nfirst line in column 0\nsecond line\n"""', "data = [\n1,\n2,\n]", 'text = (\n"a"\n"b"\n)', "text = \'\'\'\n  two spaces\nnone\n\'\'\'",
        ])
        ml_ind = "\n".join(("    " + l) if i == 0 else l for i, l in enumerate(ml.split("\n")))
        order = rng.choice([0, 1, 2])
        body = [f"    import {mods[0]}", ml_ind, f"    import {mods[1]}"]
        if order == 1:
            body = [ml_ind, f"    import {mods[0]}", f"    import {mods[1]}"]
        elif order == 2:
            body = [f"    import {mods[0]}", f"    import {mods[1]}", ml_ind]
        name = "text" if "text" in ml else "data"
        text = "def loader(flag):\n" + "\n".join(body) + f"\n    if flag:\n        return {mods[0]}, {mods[1]}, {name}\n    return None\n\n\nprint(loader(1))\n"
        try:
            ast.parse(text)
            return text
        except (SyntaxError, ValueError):
            pass
    if force == "overused" or (force is None and rng.random() < (0.5 if special else 0.12)):
        # several different constants, each used equally often and often enough to be abstracted:
        # which one gets which generated name must not depend on set / address order
        n_consts = rng.choice([2, 2, 3, 3, 6, 7])  # many constants: each application may only do part of the work
        uses = rng.choice([5, 5, 6])
        consts = rng.sample([
            '"some/path/to/a/thing/number-one"', '"another-fairly-long-constant-value"', "(1, 2, 3, 4, 5, 6, 7, 8, 9, 10)",
            '"yet another constant, with spaces"', "[10, 20, 30, 40, 50, 60, 70, 80]", '"https://example.invalid/some/long/url"',
            '"the quick brown fox jumps over it"', "(100, 200, 300, 400, 500, 600, 700)", '"SELECT name FROM table WHERE id = 1"',
        ], n_consts)
        if rng.random() < 0.25:
            # every use inside one function that starts on line 1: module and function tie as "latest common scope"
            c0 = consts[0]
            body = "".join(f"    v{i} = {c0}\n" for i in range(uses + 1))
            text = "def main():\n" + body + "    return [" + ", ".join(f"v{i}" for i in range(uses + 1)) + "]\n\n\nprint(main())\n"
            try:
                ast.parse(text)
                return text
            except (SyntaxError, ValueError):
                pass
        lines = []
        order = [c for c in consts for _ in range(uses)]
        rng.shuffle(order)
        for i, c in enumerate(order):
            lines.append(f"def user_{i}():\n    return {c}\n")
        lines.append("print(" + ", ".join(f"user_{i}()" for i in range(len(order))) + ")\n")
        text = "\n\n".join(lines)
        try:
            ast.parse(text)
            return text
        except (SyntaxError, ValueError):
            pass
    imports = rng.sample(["import os", "import sys", "import re", "from pathlib import Path", "import json", "import math"], rng.randint(0, 3))
    parts.extend(imports)
    n = rng.randint(2, 6)
    for _ in range(n):
        kind = rng.choice(["func_loop", "func_ifelse", "const_if", "class", "dictloop", "unused", "chain", "boolop"])
        f = name("func")
        a, b, c = name("arg"), name("tmp"), name("out")
        if process_dependent and rng.random() < 0.6:
            cond = rng.choice(_PROCESS_DEPENDENT)
            form = rng.choice(["if", "while", "assert", "boolop", "ifexp"])
            if form == "if":
                parts.append(f"def {f}({a}):\n    if {cond}:\n        return {a} + 1\n    return {a} - 1\n")
            elif form == "while":
                parts.append(f"def {f}({a}):\n    while {cond}:\n        {a} += 1\n        break\n    return {a}\n")
            elif form == "assert":
                parts.append(f"def {f}({a}):\n    assert {cond}\n    return {a}\n")
            elif form == "boolop":
                parts.append(f"def {f}({a}):\n    return {a} and {cond}\n")
            else:
                parts.append(f"def {f}({a}):\n    return 1 if {cond} else 2\n")
            continue
        if kind == "func_loop":
            parts.append(f"def {f}({a}):\n    {c} = []\n    for {b} in {a}:\n        if {b} > 2:\n            {c}.append({b} * 2)\n    return {c}\n")
        elif kind == "func_ifelse":
            parts.append(f"def {f}({a}):\n    if {a} > 3:\n        return 1\n    else:\n        {b} = {a} + 1\n        return {b}\n")
        elif kind == "const_if":
            parts.append(f"def {f}({a}):\n    if {rng.choice(['1 > 2', 'True', '0', 'not False', '3 == 3'])}:\n        print({a})\n    else:\n        print(-{a})\n    return {a}\n")
        elif kind == "class":
            cls = name("Cls")
            parts.append(f"class {cls}:\n    def method(self, {a}):\n        return {a} * 2\n\n    def {name('unused_method')}(self):\n        {b} = 3\n        return 1\n")
        elif kind == "dictloop":
            parts.append(f"def {f}({a}):\n    {c} = {{}}\n    for {b} in {a}:\n        {c}[{b}] = {b} ** 2\n    return {c}\n")
        elif kind == "unused":
            parts.append(f"def {name('_unused')}({a}):\n    {b} = {a}\n    {c} = {b}\n    return {a}\n")
        elif kind == "chain":
            parts.append(f"def {f}({a}):\n    return {rng.choice(['sorted(list(', 'list(sorted(', 'set(list(', 'reversed(sorted(', 'sum(list('])}{a})))\n")
        else:
            parts.append(f"def {f}({a}, {b}):\n    return {a} and {b} and {a} or not not {b}\n")
    # some calls so not everything is unused
    funcs = re.findall(r"def (func\d+)\(", "\n".join(parts))
    if funcs:
        used = rng.sample(funcs, rng.randint(1, len(funcs)))
        parts.append("if __name__ == \"__main__\":\n" + "".join(f"    print({u}([1, 2, 3]))\n" if "," not in u else "" for u in used))
    text = "\n\n".join(p.rstrip("\n") for p in parts) + "\n"
    try:
        ast.parse(text)
    except (SyntaxError, ValueError):
        return "x = 1\n"
    return text
