"""E1 txn-sim: the rewrite scheduler as a small transactional system.

Real code under test: processing.fix / chain / _schedule_rewrites /
_apply_rewrites / _do_rewrite / alter_code / remove_nodes / _replace_nodes /
_insert_nodes, core.get_charnos / has_ignore_comment / is_valid_python.
Stub: the rules (synthetic generators replaying a script).

A *case* is an explicit, JSON-able description: the source text and, per rule
group, the ordered list of yields.  `generate(rng)` draws one from the PRNG;
`execute(case)` is a pure function of the case and the code (no PRNG), so a
replay file is simply the (minimised) case.
"""
from __future__ import annotations

import ast
import random
import re
from typing import Any, Dict, List, Optional, Tuple

from . import core as C

TOKEN_RE = re.compile(r"\bn\d+\b")
MARK_RE = re.compile(r"\bM\d+\b")
IGNORE_RE = re.compile(r"#\s*pyrefact\s*:\s*(skip_file|ignore)")
POISON = "(]"  # can not parse in any code context


# --------------------------------------------------------------------------- source generator

class SrcGen:
    def __init__(self, rng: random.Random, fstrings: bool = False):
        self.rng = rng
        self.k = 0
        self.lines: List[str] = []
        self.fstrings = fstrings  # only for workloads whose oracle does not count tokens (E5 direct)

    def tok(self) -> str:
        self.k += 1
        return f"n{self.k}"

    def comment(self) -> str:
        r = self.rng.random()
        if r < 0.12:
            return "  # note"
        return ""

    def simple(self, ind: int) -> None:
        r = self.rng
        p = " " * ind
        kind = r.choice(["assign_call", "call", "list", "ifexp", "multi", "aug", "semi", "assign_call", "call"])
        t = self.tok
        if self.fstrings and r.random() < 0.3:
            self.lines.append(p + r.choice([
                "{a}(f\"{{f'{{ {b} }}'}} first\")", "{a} = f'{{ {b} }} and {{{c}!r}}'", "{a} = f\"\"\"{{{b}}} text\"\"\"",
                "{a}(f\"{{ {b}.name }} second\", f'{{{c}}}')", "{a} = f\"{{f'{{ {b} }}'}}{{ {c} }}\"",
            ]).format(a=t(), b=t(), c=t()))
            return
        if kind == "assign_call":
            self.lines.append(f"{p}{t()} = {t()}({t()}, {t()} + {t()}){self.comment()}")
        elif kind == "call":
            self.lines.append(f"{p}{t()}({t()}){self.comment()}")
        elif kind == "list":
            self.lines.append(f"{p}{t()} = [{t()}, {t()}]{self.comment()}")
        elif kind == "ifexp":
            self.lines.append(f"{p}{t()} = {t()} if {t()} else {t()}{self.comment()}")
        elif kind == "aug":
            self.lines.append(f"{p}{t()} += {t()}.{t()}{self.comment()}")
        elif kind == "semi":
            self.lines.append(f"{p}{t()} = {t()}; {t()}({t()})")
        else:  # multi-line call
            self.lines.append(f"{p}{t()} = {t()}({self.comment()}")
            self.lines.append(f"{p}    {t()},{self.comment()}")
            self.lines.append(f"{p}    {t()} + {t()},")
            self.lines.append(f"{p})")

    def body(self, ind: int, depth: int, n: int) -> None:
        for _ in range(n):
            self.stmt(ind, depth)

    def stmt(self, ind: int, depth: int) -> None:
        r = self.rng
        p = " " * ind
        t = self.tok
        if depth >= 3 or r.random() < 0.5 + 0.15 * depth:
            self.simple(ind)
            return
        kind = r.choice(["if", "ifelse", "for", "while", "def", "class", "with", "try", "decodef"])
        nb = r.choice([1, 1, 2, 2, 3])
        if kind == "if":
            self.lines.append(f"{p}if {t()}:{self.comment()}")
            self.body(ind + 4, depth + 1, nb)
        elif kind == "ifelse":
            self.lines.append(f"{p}if {t()} > {t()}:")
            self.body(ind + 4, depth + 1, nb)
            self.lines.append(f"{p}else:")
            self.body(ind + 4, depth + 1, r.randint(1, 2))
        elif kind == "for":
            self.lines.append(f"{p}for {t()} in {t()}:")
            self.body(ind + 4, depth + 1, nb)
        elif kind == "while":
            self.lines.append(f"{p}while {t()}:")
            self.body(ind + 4, depth + 1, nb)
        elif kind == "def":
            self.lines.append(f"{p}def {t()}({t()}, {t()}=None):")
            self.body(ind + 4, depth + 1, nb)
        elif kind == "decodef":
            self.lines.append(f"{p}@{t()}")
            self.lines.append(f"{p}def {t()}({t()}):")
            self.body(ind + 4, depth + 1, nb)
        elif kind == "class":
            self.lines.append(f"{p}class {t()}({t()}):")
            self.body(ind + 4, depth + 1, nb)
        elif kind == "with":
            self.lines.append(f"{p}with {t()}() as {t()}:")
            self.body(ind + 4, depth + 1, nb)
        elif kind == "try":
            self.lines.append(f"{p}try:")
            self.body(ind + 4, depth + 1, nb)
            self.lines.append(f"{p}except {t()}:")
            self.body(ind + 4, depth + 1, 1)

    def module(self) -> str:
        r = self.rng
        n = r.randint(2, 6)
        for _ in range(n):
            self.stmt(0, 0)
            if r.random() < 0.15:
                self.lines.append("")
        lines = self.lines
        # ignore comments on 0..3 physical lines (any line, also inside multi-line statements)
        n_ign = r.choice([0, 0, 1, 1, 2, 3])
        cand = [i for i, l in enumerate(lines) if l.strip() and "#" not in l]
        r.shuffle(cand)
        for i in cand[:n_ign]:
            style = r.choice(["  # pyrefact: ignore", "  #pyrefact:ignore", "  # pyrefact : ignore  "])
            lines[i] = lines[i] + style
        text = "\n".join(lines)
        if r.random() < 0.8:
            text += "\n"
        return text


# --------------------------------------------------------------------------- target enumeration

EXPR_TYPES = (ast.Name, ast.Call, ast.BinOp, ast.List, ast.IfExp, ast.Attribute, ast.Compare)


def enumerate_nodes(tree: ast.AST) -> Tuple[List[ast.stmt], List[ast.expr]]:
    """Deterministic enumeration (ast.walk order is BFS in field order)."""
    stmts: List[ast.stmt] = []
    exprs: List[ast.expr] = []
    for node in ast.walk(tree):
        if isinstance(node, ast.stmt):
            stmts.append(node)
        elif isinstance(node, EXPR_TYPES) and isinstance(getattr(node, "ctx", ast.Load()), ast.Load):
            exprs.append(node)
    return stmts, exprs


def line_starts(source: str) -> List[int]:
    out, pos = [], 0
    for line in source.splitlines(keepends=True):
        out.append(pos)
        pos += len(line)
    return out


def plain_range(node: ast.AST, source: str, ls: List[int]) -> Tuple[int, int]:
    """Independent (harness-side) char range of a node, decorators included."""
    first = node
    decos = getattr(node, "decorator_list", None)
    if decos:
        first = min(decos, key=lambda d: (d.lineno, d.col_offset))
    s = ls[first.lineno - 1] + _col(source, ls, first.lineno, first.col_offset)
    if decos:
        s -= 1  # the '@'
    e = ls[node.end_lineno - 1] + _col(source, ls, node.end_lineno, node.end_col_offset)
    return s, e


def _col(source: str, ls: List[int], lineno: int, byte_col: int) -> int:
    # generated sources are ASCII: byte offset == char offset
    return byte_col


# --------------------------------------------------------------------------- case generator

def generate(rng: random.Random, profile: Optional[Dict[str, Any]] = None) -> Dict[str, Any]:
    """Draw one case.  Everything the run needs is in the returned dict."""
    for _ in range(50):
        src = SrcGen(rng).module()
        try:
            tree = ast.parse(src)
        except SyntaxError:  # should not happen
            continue
        break
    else:
        raise C.HarnessError("source generator produced no valid module")
    stmts, exprs = enumerate_nodes(tree)
    ls = line_starts(src)
    faults_enabled = {
        "poison_text": rng.random() < 0.25,
        "poison_ast": rng.random() < 0.15,
        "dup_txn": rng.random() < 0.3,
        "dup_rewrite": rng.random() < 0.2,
        "expr_delete": rng.random() < 0.2,
        "multi_line_new": rng.random() < 0.3,
    }
    if profile and profile.get("no_faults"):
        faults_enabled = {k: False for k in faults_enabled}
    n_groups = rng.choice([1, 1, 2, 2, 3])
    id_mode = rng.choice(["explicit", "explicit", "default", "mixed"])
    marker = [0]

    def new_marker() -> str:
        marker[0] += 1
        return f"M{marker[0]}"

    def make_rewrite() -> Dict[str, Any]:
        kind = rng.choices(
            ["stmt_node", "expr_node", "stmt_range", "multi_range", "insert"], [5, 4, 2, 2, 3]
        )[0]
        rw: Dict[str, Any] = {}
        if kind == "expr_node" and not exprs:
            kind = "stmt_node"
        if kind in ("stmt_node", "stmt_range"):
            i = rng.randrange(len(stmts))
            if kind == "stmt_node":
                rw["target"] = ["stmt", i]
            else:
                s, e = plain_range(stmts[i], src, ls)
                rw["target"] = ["range", s, e]
            tk = "stmt"
        elif kind == "multi_range":
            # several whole sibling statements of one body
            bodies = [
                getattr(n, f)
                for n in ast.walk(tree)
                for f in ("body", "orelse", "finalbody")
                if isinstance(getattr(n, f, None), list) and len(getattr(n, f)) >= 2
                and all(isinstance(c, ast.stmt) for c in getattr(n, f))
            ]
            if not bodies:
                i = rng.randrange(len(stmts))
                rw["target"] = ["stmt", i]
            else:
                b = rng.choice(bodies)
                a = rng.randrange(len(b) - 1)
                z = rng.randrange(a + 1, len(b))
                s, _ = plain_range(b[a], src, ls)
                _, e = plain_range(b[z], src, ls)
                rw["target"] = ["range", s, e]
            tk = "stmt"
        elif kind == "expr_node":
            i = rng.randrange(len(exprs))
            if rng.random() < 0.3:
                s, e = plain_range(exprs[i], src, ls)
                rw["target"] = ["range", s, e]
            else:
                rw["target"] = ["expr", i]
            tk = "expr"
        else:  # insert before a statement
            i = rng.randrange(len(stmts))
            st = stmts[i]
            rw["target"] = ["insert", st.lineno, st.col_offset]
            tk = "stmt"
        # replacement
        m = new_marker()
        rw["marker"] = m
        rw["tk"] = tk
        if kind == "insert":
            rw["new"] = ["ast_stmt", rng.choice([f"{m} = 0", f"{m}()", f"import {m}"])]
        else:
            r = rng.random()
            if r < 0.22 and (tk == "stmt" or faults_enabled["expr_delete"]):
                rw["new"] = ["del"]
                rw["marker"] = None
            elif tk == "stmt":
                if faults_enabled["multi_line_new"] and rng.random() < 0.3:
                    rw["new"] = ["ast_stmt", f"if {m}:\n    pass\nelse:\n    pass"]
                elif r < 0.6:
                    rw["new"] = ["ast_stmt", rng.choice([f"{m} = 0", f"{m}()", f"del {m}"])]
                else:
                    rw["new"] = ["text", rng.choice([f"{m} = 0", f"{m}()"])]
            else:
                if r < 0.6:
                    rw["new"] = ["ast_expr", rng.choice([f"{m}", f"{m}()", f"{m} + 1", f"({m}, 1)"])]
                else:
                    rw["new"] = ["text", rng.choice([f"{m}", f"({m})", f"{m}[0]"])]
        if faults_enabled["poison_text"] and rng.random() < 0.12 and rw["new"][0] != "del":
            if kind == "insert":
                # an insertion is positioned by its node: the poison has to be a node as well
                rw["new"] = ["ast_stmt_poison", f"{rw['marker']} {POISON}"]
            else:
                rw["new"] = ["text", f"{rw['marker']} {POISON}"]
            rw["poison"] = True
        elif faults_enabled["poison_ast"] and rng.random() < 0.12 and rw["new"][0] in ("ast_expr",):
            rw["new"] = ["ast_name", f"{rw['marker']} {POISON}"]
            rw["poison"] = True
        return rw

    groups: List[Dict[str, Any]] = []
    for g in range(n_groups):
        n_txn = rng.choice([0, 1, 2, 2, 3, 3, 4, 5, 6])
        yields: List[Dict[str, Any]] = []
        used_ids: List[int] = []
        for _t in range(n_txn):
            n_rw = rng.choice([1, 1, 1, 2, 2, 3])
            explicit = id_mode == "explicit" or (id_mode == "mixed" and rng.random() < 0.5)
            if explicit:
                if used_ids and rng.random() < 0.1:
                    tid = rng.choice(used_ids)  # joins an existing transaction
                else:
                    tid = rng.randrange(0, 8)
                used_ids.append(tid)
            else:
                tid = None
                n_rw = 1  # default ids: every yield is its own transaction
            rws = [make_rewrite() for _ in range(n_rw)]
            if explicit and rng.random() < 0.3:
                # several insertions at one point inside one transaction (e.g. imports moved to the top):
                # nothing but the scheduler's final sort fixes their order
                ins = [r for r in rws if r["target"][0] == "insert"]
                if not ins:
                    for _try in range(12):
                        cand = make_rewrite()
                        if cand["target"][0] == "insert":
                            rws.append(cand)
                            ins = [cand]
                            break
                if ins:
                    for _extra in range(rng.randint(1, 3)):
                        m2 = new_marker()
                        rws.append({
                            "target": list(ins[0]["target"]), "marker": m2, "tk": "stmt",
                            "new": ["ast_stmt", rng.choice([f"{m2} = 0", f"import {m2}", f"{m2}()", f"from {m2} import x"])],
                        })
            if explicit and exprs and rng.random() < 0.15:
                # two halves that only parse together: 'M1(' in front of an expression and ', M2)' behind it
                # (the text between two applications of one pass is unparsable although the combined result is fine)
                xs, xe = plain_range(rng.choice(exprs), src, ls)
                if "\n" not in src[xs:xe]:
                    m1, m2 = new_marker(), new_marker()
                    rws.append({"target": ["range", xs, xs], "marker": m1, "tk": "expr", "new": ["text", f"{m1}("], "half": True})
                    rws.append({"target": ["range", xe, xe], "marker": m2, "tk": "expr", "new": ["text", f", {m2})"], "half": True})
            if faults_enabled["dup_rewrite"] and rng.random() < 0.25:
                rws.append(dict(rws[0]))
            for rw in rws:
                rw["txn"] = tid
                yields.append(rw)
        if faults_enabled["dup_txn"] and yields and rng.random() < 0.5:
            # exact duplicate of a whole transaction under a different id
            src_rw = rng.choice(yields)
            members = [y for y in yields if y["txn"] == src_rw["txn"]] if src_rw["txn"] is not None else [src_rw]
            new_id = rng.randrange(8, 12) if src_rw["txn"] is not None else None
            for y in members:
                d = dict(y)
                d["txn"] = new_id
                d["dup_of_group"] = g
                yields.append(d)
        # interleave transactions' rewrites: random yield order
        rng.shuffle(yields)
        groups.append({
            "name": f"rule_{g}",
            "preserve_param": rng.random() < 0.3,
            "decorated": rng.random() < 0.5,
            "yields": yields,
        })
    if faults_enabled["dup_txn"] and len(groups) >= 2 and groups[0]["yields"] and rng.random() < 0.5:
        # duplicate of an earlier group's transaction in a later group
        y0 = rng.choice(groups[0]["yields"])
        members = [y for y in groups[0]["yields"] if y["txn"] == y0["txn"]] if y0["txn"] is not None else [y0]
        fresh = rng.randrange(20, 24) if y0["txn"] is not None else None
        for y in members:
            d = dict(y)
            d["dup_of_group"] = 0
            d["txn"] = fresh
            groups[-1]["yields"].append(d)
    return {
        "engine": "e1",
        "source": src,
        "groups": groups,
        "entry": "chain" if n_groups > 1 or rng.random() < 0.4 else "fix",
        "max_iter": rng.choice([1, 1, 1, 2, 3, 5]),
        "permute_check": rng.random() < 0.35,
        "permute_seed": rng.randrange(1 << 30),
        "faults_enabled": faults_enabled,
    }


# --------------------------------------------------------------------------- driving the real scheduler

def _build_new(spec: List[Any], target: List[Any]) -> Any:
    kind = spec[0]
    if kind == "del":
        return None
    if kind == "text":
        return spec[1]
    if kind == "ast_stmt":
        node = ast.parse(spec[1]).body[0]
        if target[0] == "insert":
            node.lineno = target[1]
            node.col_offset = target[2]
            for a in ("end_lineno", "end_col_offset"):
                if hasattr(node, a):
                    delattr(node, a)
        return node
    if kind == "ast_expr":
        return ast.parse(spec[1], mode="eval").body
    if kind == "ast_name":
        return ast.Name(id=spec[1], ctx=ast.Load())
    if kind == "ast_stmt_poison":
        node = ast.Expr(value=ast.Name(id=spec[1], ctx=ast.Load()))
        if target[0] == "insert":
            node.lineno = target[1]
            node.col_offset = target[2]
        else:
            node.lineno, node.col_offset = 1, 0
        return node
    raise ValueError(kind)


def _strip_positions(node: ast.AST) -> ast.AST:
    for n in ast.walk(node):
        for a in ("lineno", "col_offset", "end_lineno", "end_col_offset"):
            if hasattr(n, a):
                delattr(n, a)
    return node


def make_rule(group: Dict[str, Any], bound_source: str, pyrefact_core, order: Optional[List[int]] = None):
    """A synthetic rule: a generator function replaying the group's script on
    exactly `bound_source` (it yields nothing for any other text)."""
    yields = group["yields"]
    idxs = order if order is not None else list(range(len(yields)))
    shared_new: Dict[int, Any] = {}

    def _emit(source):
        if source != bound_source:
            return
        tree = pyrefact_core.parse(source)
        stmts, exprs = enumerate_nodes(tree)
        for i in idxs:
            y = yields[i]
            tgt = y["target"]
            if tgt[0] == "stmt":
                old = stmts[tgt[1]]
            elif tgt[0] == "expr":
                old = exprs[tgt[1]]
            elif tgt[0] == "range":
                old = pyrefact_core.Range(tgt[1], tgt[2])
            else:
                old = None
            new = _build_new(y["new"], tgt)
            if y["txn"] is None:
                yield (old, new)
            else:
                yield (old, new, y["txn"])

    if group.get("preserve_param"):
        def rule(source, preserve=frozenset()):
            yield from _emit(source)
    else:
        def rule(source):
            yield from _emit(source)
    rule.__name__ = group["name"]
    rule.__qualname__ = group["name"]
    return rule


def run_scheduler(case: Dict[str, Any], orders: Optional[List[List[int]]] = None, max_iter: Optional[int] = None,
                  undo_log: Optional[List[str]] = None) -> str:
    from pyrefact import core as pcore
    from pyrefact import processing

    src = case["source"]
    mi = case["max_iter"] if max_iter is None else max_iter
    rules = []
    for gi, g in enumerate(case["groups"]):
        rule = make_rule(g, src, pcore, orders[gi] if orders else None)
        if g.get("decorated"):
            rule = processing.fix(rule, max_iter=1)
        rules.append(rule)
    if undo_log is not None:
        # one more rule that depends on the iteration: silent on the original text, and on any other text it
        # yields a single rewrite of the whole text back to the original - later passes bring earlier texts back
        def undo_rule(source):
            undo_log.append(source)
            if source != src:
                yield (pcore.Range(0, len(source)), src)

        undo_rule.__name__ = undo_rule.__qualname__ = "rule_undo"
        rules.append(undo_rule)
        return processing.chain(rules, max_iter=mi)(src, preserve=frozenset({"x"}))
    if case["entry"] == "fix" and len(rules) == 1:
        r = rules[0]
        r = getattr(r, "_fix_func", r)
        fn = processing.fix(r, max_iter=mi)
        if case["groups"][0].get("preserve_param"):
            return fn(src, preserve=frozenset({"x"}))
        return fn(src)
    fn = processing.chain(rules, max_iter=mi)
    return fn(src, preserve=frozenset({"x"}))


# --------------------------------------------------------------------------- reference model

class Txn:
    def __init__(self, group: int, number: Any, known_number: bool, first_yield: int):
        self.group = group
        self.number = number  # explicit id, or None for default ids
        self.known = known_number
        self.first_yield = first_yield
        self.rewrites: List[Dict[str, Any]] = []
        self.key = None

    def __repr__(self):
        return f"T(g{self.group},#{self.number if self.known else 'd%d' % self.first_yield})"


def _overlap(a: Tuple[int, int], b: Tuple[int, int]) -> bool:
    return a[0] < b[1] and b[0] < a[1]


def resolve_ranges(case: Dict[str, Any]) -> None:
    """Attach the harness-side char range to every yield (independent of
    core.get_charnos: computed from ast positions of an own parse)."""
    src = case["source"]
    tree = ast.parse(src)
    stmts, exprs = enumerate_nodes(tree)
    ls = line_starts(src)
    for g in case["groups"]:
        for y in g["yields"]:
            t = y["target"]
            if t[0] == "stmt":
                y["_range"] = plain_range(stmts[t[1]], src, ls)
            elif t[0] == "expr":
                y["_range"] = plain_range(exprs[t[1]], src, ls)
            elif t[0] == "range":
                y["_range"] = (t[1], t[2])
            else:
                p = ls[t[1] - 1] + t[2]
                y["_range"] = (p, p)


def ignored_line_spans(src: str) -> List[Tuple[int, int, str]]:
    out, pos = [], 0
    for line in src.splitlines(keepends=True):
        if IGNORE_RE.search(line):
            out.append((pos, pos + len(line), line.rstrip("\n")))
        pos += len(line)
    return out


def build_txns(case: Dict[str, Any]) -> List[Txn]:
    txns: Dict[Tuple[int, Any], Txn] = {}
    counter = 0
    for gi, g in enumerate(case["groups"]):
        for y in g["yields"]:
            counter += 1
            if y["txn"] is None:
                key = (gi, ("d", counter))
                t = Txn(gi, -100000000 + counter, False, counter)
            else:
                key = (gi, ("e", y["txn"]))
                t = txns.get(key) or Txn(gi, y["txn"], True, counter)
            txns.setdefault(key, t)
            txns[key].rewrites.append(y)
    out = list(txns.values())
    return out


def rewrite_identity(y: Dict[str, Any]) -> Tuple:
    return (tuple(y["_range"]), tuple(y["new"]))


def analyse(case: Dict[str, Any], out: str) -> Tuple[Optional[Dict[str, Any]], Dict[str, int], str]:
    """The relational oracle.  Returns (violation|None, stats, conflict signature).

    Observation is indirect (marker and token occurrences in the output), so the
    oracle asks whether there EXISTS an assignment applied/not-applied to the
    rewrites that explains the output and satisfies every clause of the
    statement.  Only when no such assignment exists is a violation reported, with
    the clause that the best explanation breaks.
    """
    stats = C.Counter()
    src = case["source"]
    resolve_ranges(case)
    txns = build_txns(case)
    ign = ignored_line_spans(src)

    def touches_ignored(rng) -> Optional[bool]:
        """True / False / None (zero-width at an ignored line: unspecified)."""
        s, e = rng
        if s == e:
            for a, b, _ in ign:
                if a <= s <= b:
                    return None
            return False
        return any(_overlap((s, e), (a, b)) for a, b, _ in ign)

    # ---- static classification; identical rewrites inside a transaction are one rewrite
    for t in txns:
        ids = [rewrite_identity(y) for y in t.rewrites]
        t.units = []  # (identity, yield, multiplicity)
        for ident in dict.fromkeys(ids):
            ys = [y for y in t.rewrites if rewrite_identity(y) == ident]
            t.units.append({"ident": ident, "y": ys[0], "mult": len(ys), "rng": tuple(ys[0]["_range"]), "t": t})
        t.has_dup_rewrite = len(t.units) != len(ids)
        rngs = [u["rng"] for u in t.units]
        t.self_overlap = any(_overlap(rngs[i], rngs[j]) for i in range(len(rngs)) for j in range(i + 1, len(rngs)))
        ti = [touches_ignored(r) for r in rngs]
        t.ignored = True if any(x is True for x in ti) else (None if any(x is None for x in ti) else False)
        t.poison = any(y.get("poison") for y in t.rewrites)
        t.ident = tuple(ids)
        t.ident_set = frozenset(ids)
        if t.self_overlap:
            stats.inc("fault.self_overlap")
        if t.ignored:
            stats.inc("fault.touches_ignored")
        if t.has_dup_rewrite:
            stats.inc("fault.dup_rewrite_in_txn")
        if t.poison:
            stats.inc("fault.poison_replacement")

    def known_before(u: Txn, t: Txn) -> Optional[bool]:
        """Does u have precedence over t?  None = unspecified by the statement
        (default ids are an implementation matter)."""
        if u.group != t.group:
            return u.group < t.group
        if u.known and t.known:
            return u.number < t.number
        return None

    def is_dup(u: Txn, t: Txn) -> bool:
        return u.ident_set == t.ident_set

    def conflicts(u: Txn, t: Txn) -> bool:
        return is_dup(u, t) or _really_overlaps(u, t)

    n_conf = 0
    for t in txns:
        t.conf = [u for u in txns if u is not t and conflicts(u, t)]
        n_conf += len(t.conf)
        t.own_reason = bool(t.self_overlap or t.ignored is True)
        t.own_may = bool(t.has_dup_rewrite or t.ignored is None)
        if any(is_dup(u, t) for u in t.conf):
            stats.inc("fault.dup_txn_member")
    stats.inc("conflict_pairs", n_conf // 2)

    for t in txns:
        t.must_apply = (
            not t.own_reason and not t.own_may and all(known_before(t, u) is True for u in t.conf)
        )
    for t in txns:
        t.must_drop = t.own_reason or any(
            u.must_apply and known_before(u, t) is True and _really_overlaps(u, t) for u in t.conf
        )

    # ---- exact greedy expectation E (used for the rollback-justification clause only)
    order = sorted(txns, key=lambda t: (t.group, t.number))
    dropped_dup = set()
    for g in range(len(case["groups"])):  # the tool's duplicate pass runs once per group
        seen = set()
        for t in order:
            if t.group > g or id(t) in dropped_dup:
                continue
            if t.ident in seen:
                dropped_dup.add(id(t))
            seen.add(t.ident)
    expected: List[Txn] = []
    for t in order:
        if id(t) in dropped_dup:
            continue
        rngs = [u["rng"] for u in t.units]
        if any(_tool_has_ignore(src, r) for r in rngs):
            continue
        if t.self_overlap or (t.has_dup_rewrite and any(
            u["mult"] > 1 and u["y"]["new"][0] not in ("text", "del") and u["rng"][0] != u["rng"][1] for u in t.units
        )):
            continue
        if any(_overlap(a, u["rng"]) for a in rngs for e in expected for u in e.units):
            continue
        expected.append(t)
    exp_poison = any(t.poison for t in expected)
    naive_ok = _parses(_naive_splice(src, expected))

    # ---- signature of the conflict structure (distinctness measure)
    rel = C.Counter()
    for i, t in enumerate(txns):
        for u in txns[i + 1 :]:
            for a in t.units:
                for b in u.units:
                    rel.inc(_relation(a["rng"], b["rng"]))
    sig_parts = sorted((k, min(v, 3)) for k, v in rel.items() if k != "disjoint")
    fault_kinds = sorted(k for k in stats if k.startswith("fault."))
    signature = C.sha([sig_parts, fault_kinds, len(case["groups"]), len(txns) > 0, bool(ign)])[:16]
    nontrivial = bool(sig_parts or fault_kinds or ign)

    def _shifted_insert_pattern() -> bool:
        """An insertion at column > 0 exactly where an (expected-applied) deletion
        starts, the deletion emptying its line: the tool removes the emptied line
        *including its indentation*, which lies before the insertion point, so the
        pending insertion lands in the following line (known finding K1)."""
        exp_units = [u for t in expected for u in t.units]
        for d in exp_units:
            if d["y"]["new"][0] != "del":
                continue
            s0, e0 = d["rng"]
            ls0 = src.rfind("\n", 0, s0) + 1
            le0 = src.find("\n", e0)
            le0 = len(src) if le0 < 0 else le0
            if s0 == ls0 or src[ls0:s0].strip() or src[e0:le0].strip():
                continue
            # ... and (what is left after the repair) the following line has the same indentation and
            # carries an ignore comment, so the pending insertion ends up strictly inside an ignored line
            nxt_end = src.find("\n", le0 + 1)
            nxt = src[le0 + 1 : nxt_end if nxt_end >= 0 else len(src)]
            if not (IGNORE_RE.search(nxt) and len(nxt) - len(nxt.lstrip(" ")) == s0 - ls0):
                continue
            for t in txns:
                for u in t.units:
                    if u["rng"] == (s0, s0):
                        return True
        return False

    def viol(cls: str, detail: str):
        v = {"class": cls, "detail": detail}
        if cls in ("dropped-without-reason", "spurious-rollback", "frame", "frame-order", "invalid-output", "atomicity", "rewrite-applied-twice") and _shifted_insert_pattern():
            v["finding_key"] = "e1:insert-at-start-of-removed-indented-line"
        return (v, stats, signature)

    stats.inc("txns", len(txns))
    stats.inc("rewrites", sum(len(t.rewrites) for t in txns))
    stats.inc("steps", sum(len(t.rewrites) for t in txns) + 1)
    if nontrivial:
        stats.inc("nontrivial_runs")

    # ---- validity (shared with C03; the input always parses here)
    if not _parses(out):
        return viol("invalid-output", "output of the pass does not parse")

    if out == src:
        stats.inc("outcome.unchanged")
        if not txns:
            return None, stats, signature
        if (
            expected
            and not exp_poison
            and naive_ok
            and any(t.must_apply for t in txns)
            and not any(t.poison for t in txns if not t.must_drop)
        ):
            return viol(
                "spurious-rollback",
                f"pass left the text unchanged although {sum(t.must_apply for t in txns)} transaction(s) must "
                "apply and their combined result parses",
            )
        if exp_poison:
            stats.inc("fault.rollback_taken_poison")
        elif expected and not naive_ok:
            stats.inc("fault.rollback_taken_unparsable_combination")
        return None, stats, signature

    stats.inc("outcome.changed")
    # ---- observations
    counts = C.Counter()
    for m in MARK_RE.findall(out):
        counts.inc(m)
    in_tokens = [(m.group(0), m.start()) for m in TOKEN_RE.finditer(src)]
    out_tokens = [m.group(0) for m in TOKEN_RE.finditer(out)]
    out_count = C.Counter()
    for tk in out_tokens:
        out_count.inc(tk)
    for tk, c in out_count.items():
        if c > 1:
            return viol("token-duplicated", f"input token {tk} occurs {c} times in the output")
    surv = [tk for tk, _ in in_tokens if out_count.get(tk, 0) == 1]
    if surv != out_tokens:
        return viol("frame-order", "surviving tokens changed their relative order (or unknown tokens appeared)")
    if ign:
        out_lines = out.split("\n")
        pos = 0
        for _, _, text in ign:
            try:
                pos = out_lines.index(text, pos) + 1
            except ValueError:
                return viol("ignored-line-changed", f"ignored line {text!r} is not present verbatim")
        stats.inc("ignored_lines_checked", len(ign))

    units = [u for t in txns for u in t.units]
    by_marker: Dict[str, List[Dict[str, Any]]] = {}
    for u in units:
        m = u["y"]["marker"] if u["y"]["new"][0] != "del" else None
        u["marker"] = m
        if m is not None:
            by_marker.setdefault(m, []).append(u)
    for m in counts:
        if m not in by_marker:
            return viol("unknown-marker", f"marker {m} in the output was never yielded")

    # ---- determine what can be determined, search over the rest
    for u in units:
        u["bit"] = None
    for m, us in by_marker.items():
        c = counts.get(m, 0)
        if c == 0:
            for u in us:
                u["bit"] = 0
        elif len(us) == 1:
            us[0]["bit"] = 1
    absent_tokens = [(tk, p) for tk, p in in_tokens if out_count.get(tk, 0) == 0]
    present_pos = [p for tk, p in in_tokens if out_count.get(tk, 0) == 1]
    for u in units:
        s, e = u["rng"]
        if any(s <= p < e for p in present_pos):
            if u["bit"] == 1:
                return viol("frame", f"tokens inside the applied rewrite {u['marker']} at {u['rng']} survived")
            u["bit"] = 0
    unknown = [u for u in units if u["bit"] is None]
    if len(unknown) > 14:
        stats.inc("unjudged_too_many_unknowns")
        return None, stats, signature

    def observationally_consistent() -> Optional[str]:
        for m, us in by_marker.items():
            c = counts.get(m, 0)
            lo = sum(1 for u in us if u["bit"])
            hi = sum((u["mult"] if u["rng"][0] == u["rng"][1] else 1) for u in us if u["bit"])
            if not lo <= c <= hi:
                return f"marker {m} occurs {c} times, explanation allows {lo}..{hi}"
        on = [u["rng"] for u in units if u["bit"]]
        for tk, p in absent_tokens:
            if not any(s <= p < e for s, e in on):
                return f"token {tk} vanished but no applied rewrite covers it"
        return None

    def clause_violations() -> List[Tuple[str, str]]:
        bad: List[Tuple[str, str]] = []
        for t in txns:
            bits = {u["bit"] for u in t.units}
            if len(bits) > 1:
                bad.append(("atomicity", f"{t}: rewrites partly applied {[(u['marker'] or 'del', u['rng'], u['bit']) for u in t.units]}"))
            t.applied = 1 in bits
        on = [u for u in units if u["bit"]]
        for i in range(len(on)):
            for j in range(i + 1, len(on)):
                if _overlap(on[i]["rng"], on[j]["rng"]):
                    bad.append(("overlap", f"applied rewrites overlap: {on[i]['rng']} of {on[i]['t']} and {on[j]['rng']} of {on[j]['t']}"))
        for u in on:
            if u["mult"] > 1 and u["rng"][0] != u["rng"][1] and counts.get(u["marker"] or "", 1) > 1:
                bad.append(("rewrite-applied-twice", f"marker {u['marker']} applied more than once on a non-empty range"))
        for t in txns:
            if t.applied and t.must_drop:
                why = "self-overlap" if t.self_overlap else ("ignored line" if t.ignored else "overlap with precedence")
                bad.append(("applied-but-must-drop", f"{t} applied although it must be dropped ({why})"))
            if not t.applied and t.must_apply:
                bad.append(("dropped-without-reason", f"{t} dropped although nothing with precedence conflicts with it"))
            if t.applied and t.poison:
                bad.append(("invalid-output", f"{t} with unparsable replacement applied"))
        # is there a precedence order (extending the specified one) that explains every drop?
        needy = {id(t) for t in txns if not t.applied and not t.own_reason and not t.own_may}
        placed: set = set()
        remaining = list(txns)
        progress = True
        while remaining and progress:
            progress = False
            for t in list(remaining):
                if not all(id(u) in placed for u in txns if u is not t and known_before(u, t) is True):
                    continue
                if id(t) in needy and not any(id(u) in placed for u in t.conf):
                    continue
                placed.add(id(t))
                remaining.remove(t)
                progress = True
        stuck = [t for t in remaining if id(t) in needy]
        if stuck:
            bad.append(("dropped-without-reason", f"no precedence order explains dropping {stuck}"))
        return bad

    best: Optional[List[Tuple[str, str]]] = None
    obs_fail: Optional[str] = None
    any_consistent = False
    for mask in range(1 << len(unknown)):
        for i, u in enumerate(unknown):
            u["bit"] = (mask >> i) & 1
        why = observationally_consistent()
        if why is not None:
            if obs_fail is None or (obs_fail.startswith("marker") and why.startswith("token")):
                obs_fail = why
            continue
        any_consistent = True
        bad = clause_violations()
        if not bad:
            best = []
            break
        if best is None or len(bad) < len(best):
            best = bad
    if not any_consistent:
        cls = "rewrite-applied-twice" if obs_fail and obs_fail.startswith("marker") else "frame"
        return viol(cls, obs_fail or "output can not be explained by any set of applied rewrites")
    if best:
        return viol(best[0][0], best[0][1] + (f" (+{len(best) - 1} more)" if len(best) > 1 else ""))
    if len(unknown) > 0:
        stats.inc("runs_with_unobservable_rewrites")

    for t in txns:
        if not t.applied:
            stats.inc("txn.dropped")
            if t.self_overlap:
                stats.inc("drop.self_overlap")
            elif t.ignored:
                stats.inc("drop.ignored_line")
            elif any(is_dup(u, t) for u in t.conf):
                stats.inc("drop.duplicate")
            elif t.conf:
                stats.inc("drop.overlap_with_precedence")
            else:
                stats.inc("drop.other_may")
        else:
            stats.inc("txn.applied")
    if {id(t) for t in expected} == {id(t) for t in txns if t.applied}:
        stats.inc("exact_model_agrees")
    else:
        stats.inc("exact_model_differs_within_MAY")
    return None, stats, signature


def _all_zero_width(t: Txn) -> bool:
    return all(y["_range"][0] == y["_range"][1] for y in t.rewrites)


def _really_overlaps(u: Txn, t: Txn) -> bool:
    return any(_overlap(tuple(a["_range"]), tuple(b["_range"])) for a in u.rewrites for b in t.rewrites)


def _tool_has_ignore(src: str, rng: Tuple[int, int]) -> bool:
    pos = 0
    for line in src.splitlines(keepends=True):
        a, b = pos, pos + len(line)
        pos = b
        if rng[0] < b and a < rng[1] and IGNORE_RE.search(line):
            return True
    return False


def _relation(a: Tuple[int, int], b: Tuple[int, int]) -> str:
    if a == b:
        return "equal-zero" if a[0] == a[1] else "equal"
    if a[0] == a[1] or b[0] == b[1]:
        z, o = (a, b) if a[0] == a[1] else (b, a)
        if o[0] < z[0] < o[1]:
            return "zero-inside"
        if z[0] in (o[0], o[1]):
            return "zero-at-edge"
        return "disjoint"
    if not _overlap(a, b):
        return "adjacent" if a[1] == b[0] or b[1] == a[0] else "disjoint"
    if (a[0] <= b[0] and b[1] <= a[1]) or (b[0] <= a[0] and a[1] <= b[1]):
        return "nested"
    return "partial"


def _parses(text: str) -> bool:
    try:
        ast.parse(text)
        return True
    except (SyntaxError, ValueError, RecursionError):
        return False


def _new_text(y: Dict[str, Any]) -> str:
    k = y["new"][0]
    if k == "del":
        return ""
    return y["new"][1]


def _naive_splice(src: str, txns: List[Txn]) -> str:
    rws = {rewrite_identity(y): y for t in txns for y in t.rewrites}
    out = src
    for y in sorted(rws.values(), key=lambda y: (y["_range"][0], y["_range"][1]), reverse=True):
        s, e = y["_range"]
        txt = _new_text(y)
        if y.get("tk") == "stmt":
            ls_ = src.rfind("\n", 0, s) + 1
            le_ = src.find("\n", e)
            le_ = len(src) if le_ < 0 else le_
            after = src[e:le_].strip()
            if src[ls_:s].strip() or (after and not after.startswith("#")):
                return "(] statement shares its line with another one: not judged"
            if y["new"][0] == "ast_stmt" and after:
                return "(] trailing comment moves to its own line: not judged"
        if y["target"][0] == "insert":
            line_start = out.rfind("\n", 0, s) + 1
            indent = out[line_start:s]
            if indent.strip():
                return "(] insertion inside a line"
            txt = txt + "\n" + indent
        elif y["new"][0] == "del" and "\n" not in out[s:e] and _is_stmt_target(y):
            txt = "pass"
        if "\n" in txt and y["target"][0] != "insert":
            return "(] multi-line replacement: not judged"
        out = out[:s] + txt + out[e:]
    return out


def _is_stmt_target(y: Dict[str, Any]) -> bool:
    return y["target"][0] in ("stmt",)


# --------------------------------------------------------------------------- execute

def execute(case: Dict[str, Any]) -> Dict[str, Any]:
    """Run one case against the real scheduler and judge it."""
    C.import_pyrefact()
    log = C.EventLog(case.get("seed"))
    src = case["source"]
    log.add("source", C.sha(src))
    for g in case["groups"]:
        log.add("group", g["name"], [[y["target"], y["new"], y["txn"]] for y in g["yields"]])
    stats = C.Counter()
    try:
        out = run_scheduler(case, max_iter=1)
    except Exception as exc:  # the scheduler itself must not raise on these inputs
        v = {"class": "scheduler-raised", "detail": f"{type(exc).__name__}: {exc}"}
        log.add("raised", v["detail"])
        return {"violation": v, "digest": log.digest(), "stats": dict(stats), "signature": "raised", "log": log.lines()}
    log.add("out", C.sha(out))
    violation, st, signature = analyse(case, out)
    stats.merge(st)
    if violation is None and case.get("max_iter", 1) != 1:
        out2 = run_scheduler(case)
        stats.inc("multi_iter_runs")
        log.add("out_multi", C.sha(out2))
        if out2 != out:
            violation = {"class": "multi-iter-differs", "detail": f"max_iter={case['max_iter']} gives a different text than one pass although the rules are silent on other texts"}
    if violation is None and case.get("max_iter", 1) >= 2 and out != case["source"] and _parses(out) and not ignored_line_spans(case["source"]) and not ignored_line_spans(out):
        # later passes of one run: with the undo rule pass 2 is one transaction with nothing to conflict with and a
        # result that parses (the original text), so it must be applied - whatever the run does after that, what it
        # returns is the result of the last pass it executed: the original after an even number of passes, the
        # one-pass result after an odd number
        seen: List[str] = []
        try:
            out4 = run_scheduler(case, undo_log=seen)
        except Exception as exc:  # noqa: BLE001
            out4 = None
            violation = {"class": "scheduler-raised", "detail": f"undo run: {type(exc).__name__}: {exc}"}
        if out4 is not None and seen:
            stats.inc("undo_runs")
            stats.inc(f"undo_runs.passes_{len(seen)}")
            log.add("out_undo", len(seen), C.sha(out4))
            # Judged only where the run stopped after two of at least three allowed passes: the tool stops early
            # only when a pass brings an earlier text back, here the original (whole-text replacements are not always
            # byte exact - the tool re-lays out some statements -, then the run goes on and is merely counted).
            if case["max_iter"] >= 3 and len(seen) == 2 and seen == [case["source"], out]:
                stats.inc("undo_runs.judged")
                if out4 != case["source"]:
                    violation = {"class": "later-pass-lost", "detail": "the run stopped after its second pass, whose only transaction restores the original text and conflicts with nothing, but what it returned is not that pass's result (a pass whose result parses was discarded)"}
            elif len(seen) > 2:
                stats.inc("observed.undo_not_byte_exact")
    if violation is None and case.get("permute_check"):
        # yield-order independence: only claimed where precedence is specified by ids
        if all(y["txn"] is not None for g in case["groups"] for y in g["yields"]):
            prng = random.Random(case["permute_seed"])
            orders = []
            for g in case["groups"]:
                o = list(range(len(g["yields"])))
                prng.shuffle(o)
                orders.append(o)
            # a transaction's identity for duplicate detection is order-sensitive inside the
            # tool; the statement only permits dropping duplicates, so runs with duplicates
            # are excluded from this clause
            if not stats.get("fault.dup_txn_pair") and not stats.get("fault.dup_rewrite_in_txn"):
                out3 = run_scheduler(case, orders=orders, max_iter=1)
                stats.inc("yield_order_permutations")
                log.add("out_perm", C.sha(out3))
                if out3 != out:
                    violation = {"class": "yield-order-dependence", "detail": f"permuted yield order {orders} gives a different text"}
    log.add("verdict", violation["class"] if violation else "ok")
    return {
        "violation": violation,
        "digest": log.digest(),
        "stats": dict(stats),
        "signature": signature,
        "log": log.lines() if violation else None,
        "out": out if violation else None,
    }


def run_seed(seed: int, no_faults: bool = False) -> Dict[str, Any]:
    rng = random.Random(seed)
    case = generate(rng, {"no_faults": no_faults})
    case["seed"] = seed
    res = execute(case)
    res["seed"] = seed
    if res["violation"]:
        res["case"] = strip_case(case)
    res["sample"] = {"source": case["source"], "groups": [
        {"name": g["name"], "yields": [[y["target"], y["new"], y["txn"]] for y in g["yields"]]} for g in case["groups"]
    ]} if seed % 97 == 0 or res["violation"] else None
    return res


def strip_case(case: Dict[str, Any]) -> Dict[str, Any]:
    out = dict(case)
    out["groups"] = [
        {**g, "yields": [{k: v for k, v in y.items() if not k.startswith("_")} for y in g["yields"]]}
        for g in case["groups"]
    ]
    return out


def shrink(case: Dict[str, Any], vclass: str, still_fails) -> Dict[str, Any]:
    """Minimise: drop yields (ddmin over the flat yield list), drop groups, then
    simplify knobs.  `still_fails(case) -> bool` re-executes in a fresh fork."""
    case = strip_case(case)
    flat = [(gi, yi) for gi, g in enumerate(case["groups"]) for yi in range(len(g["yields"]))]

    def with_yields(keep):
        keep = set(keep)
        c = dict(case)
        c["groups"] = [
            {**g, "yields": [y for yi, y in enumerate(g["yields"]) if (gi, yi) in keep]}
            for gi, g in enumerate(case["groups"])
        ]
        return c

    kept = C.ddmin(flat, lambda k: still_fails(with_yields(k)), max_tests=120)
    case = with_yields(kept)
    # drop empty groups where possible
    for gi in reversed(range(len(case["groups"]))):
        if len(case["groups"]) > 1 and not case["groups"][gi]["yields"]:
            c = dict(case)
            c["groups"] = case["groups"][:gi] + case["groups"][gi + 1 :]
            if still_fails(c):
                case = c
    for key, val in (("max_iter", 1), ("permute_check", False)):
        if case.get(key) != val:
            c = dict(case)
            c[key] = val
            if still_fails(c):
                case = c
    return case


# --------------------------------------------------------------------------- interface to the driver

COMPONENTS = {
    "real": [
        "pyrefact.processing.fix / chain / _build_chain / _schedule_rewrites / _apply_rewrites / _do_rewrite",
        "pyrefact.processing.minimize_whitespace_line_differences / _substitute_original_(f)strings",
        "pyrefact.core.parse / get_charnos / has_ignore_comment / is_valid_python / unparse / Range",
    ],
    "stub": ["the rules: synthetic generator functions replaying a recorded yield script"],
}

_C20_CLASSES = {"ignored-line-changed"}
_C03_CLASSES = {"invalid-output"}


def props_of(v):
    cls = v["class"]
    props = []
    if cls in _C20_CLASSES or (cls == "applied-but-must-drop" and "ignored line" in v.get("detail", "")):
        props.append("C20")
    if cls in _C03_CLASSES:
        props.append("C03")
    if cls not in _C20_CLASSES:
        props.append("C10")
    return props
