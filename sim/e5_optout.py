"""E5 optout: the opt-out comments at the library and stream entry points and
through the direct editing back-end (processing.alter_code), complementing E1
(scheduler back-end) and E3 (file entry point under the pool scheduler).

Sub-workloads (one drawn per run):
  skip     format_code(text with a skip_file comment) == text for drawn options;
           stdin mode echoes it (up to the newline print() appends)
  ignore   an ignore comment on a drawn line of a corpus / generated input:
           that physical line is present verbatim in format_code's output
  direct   synthetic removals / replacements / additions through alter_code on
           a generated module with ignore comments: ignored lines verbatim
Real code: all of pyrefact.  Stub: sys.stdin / sys.stdout recording streams.
"""
from __future__ import annotations

import ast
import io
import random
import sys
from typing import Any, Dict, List, Optional

from . import core as C
from . import e1_txn
from . import gen


def generate(rng: random.Random, profile: Optional[Dict[str, Any]] = None) -> Dict[str, Any]:
    profile = profile or {}
    kind = profile.get("kind") or rng.choice(["skip", "ignore", "ignore", "direct", "direct"])
    corp = gen.corpus()
    if kind == "preserve":
        # C08, within-file clause: format_code(x, preserve=P) keeps every definition named in P
        from . import e3_profiles as P

        for _ in range(30):
            if rng.random() < 0.5:
                x = gen.pick_input(rng, corp)
            else:
                t = P.gen_preserve_tree(rng)
                x = t["files"][t["libs"][0]["rel"]]
            defs = P._defs(x)
            tops = sorted(n for n in defs if "." not in n)
            if tops and "skip_file" not in x:
                break
        pres = sorted(rng.sample(tops, rng.randint(1, min(4, len(tops))))) if tops else []
        # members of preserved classes, in the 'Class.member' form format_code documents for safe mode
        for n in list(pres):
            members = [m for m in defs if m.startswith(n + ".") and defs[m] == "method"]
            if members and rng.random() < 0.5:
                pres.append(rng.choice(members))
        # a variable that exists only through `global` inside a function is judged together with that
        # function (like a method with its class): the function is preserved as well
        try:
            for fn in ast.walk(ast.parse(x)):
                if isinstance(fn, (ast.FunctionDef, ast.AsyncFunctionDef)):
                    declared = {n for g in ast.walk(fn) if isinstance(g, ast.Global) for n in g.names}
                    if declared & set(pres) and fn.name not in pres:
                        pres.append(fn.name)
        except SyntaxError:
            pass
        return {"engine": "e5", "kind": "preserve", "x": x, "preserve": pres, "safe": False, "keep_imports": rng.random() < 0.2}
    if kind == "skip":
        x = gen.pick_input(rng, corp)
        lines = x.split("\n")
        pos = rng.randrange(len(lines) + 1)
        marker = rng.choice(["# pyrefact: skip_file", "skip_marker = 1  # pyrefact: skip_file", "    # pyrefact: skip_file" if pos else "# pyrefact: skip_file",
                             "# flake8: noqa  # pyrefact: skip_file", "skip_marker = 1  # type: ignore  # pyrefact: skip_file", "# generated file, do not edit # pyrefact: skip_file"])
        if rng.random() < 0.3 and lines and lines[min(pos, len(lines) - 1)].strip() and "#" not in lines[min(pos, len(lines) - 1)] and not lines[min(pos, len(lines) - 1)].rstrip().endswith(("\\", '"""', "'''")):
            i = min(pos, len(lines) - 1)
            lines[i] = lines[i] + "  # pyrefact: skip_file"
        else:
            lines.insert(pos, marker)
        text = "\n".join(lines)
        return {"engine": "e5", "kind": "skip", "x": text,
                "safe": rng.random() < 0.3, "keep_imports": rng.random() < 0.3,
                "preserve": sorted(gen.some_names(rng, text)), "stdin": rng.random() < 0.5}
    if kind == "ignore":
        for _ in range(20):
            x = gen.pick_input(rng, corp)
            xi = gen.with_ignore(rng, x) if "pyrefact: ignore" not in x else x
            if "pyrefact: ignore" in xi and "skip_file" not in xi:
                break
        return {"engine": "e5", "kind": "ignore", "x": xi, "safe": rng.random() < 0.25, "keep_imports": rng.random() < 0.2}
    # direct back-end
    for _ in range(50):
        src = e1_txn.SrcGen(rng, fstrings=rng.random() < 0.5).module()
        try:
            ast.parse(src)
        except SyntaxError:
            continue
        if "pyrefact" in src or rng.random() < 0.3:
            break
    tree = ast.parse(src)
    stmts, exprs = e1_txn.enumerate_nodes(tree)
    forced: List[Any] = []
    if rng.random() < 0.3:
        # the annotated line is a decorator line (the node's own position starts at the def / class line, the
        # text that an edit removes starts at the first decorator), and the definition is what gets removed / moved
        deco = [k for k, st in enumerate(stmts) if getattr(st, "decorator_list", None)]
        if deco:
            k = rng.choice(deco)
            dline = stmts[k].decorator_list[0].lineno - 1
            lines_ = src.split("\n")
            if "#" not in lines_[dline]:
                lines_[dline] += rng.choice(["  # pyrefact: ignore", "  #pyrefact:ignore"])
                src = "\n".join(lines_)
                tree = ast.parse(src)
                stmts, exprs = e1_txn.enumerate_nodes(tree)
            forced = [rng.choice(["remove", "remove", "replace_stmt", "reemit"]), k]
    n = rng.randint(1, 4)
    actions = []
    ls = e1_txn.line_starts(src)
    used: List[Any] = []

    def free(node) -> bool:
        r = e1_txn.plain_range(node, src, ls)
        if any(r[0] < b and a < r[1] for a, b in used):
            return False
        used.append(r)
        return True

    for j in range(n):
        a = rng.choice(["remove", "remove", "replace_stmt", "replace_expr", "add", "move", "reemit", "reemit"])
        if a == "replace_expr" and not exprs:
            a = "remove"
        if j == 0 and forced:
            a = forced[0]
        if a in ("remove", "replace_stmt", "move", "reemit"):
            i = forced[1] if (j == 0 and forced) else rng.randrange(len(stmts))
            if not free(stmts[i]):
                continue  # the edits of one call never overlap (as in the real callers)
        if a == "replace_expr":
            i = rng.randrange(len(exprs))
            if not free(exprs[i]):
                continue
        if a == "reemit":
            # the statement is emitted again inside a new block (as early_continue / swap_if_else do):
            # its string literals are re-rendered and their original spelling is restored afterwards
            actions.append(["reemit", i, f"R{j}"])
        elif a == "remove":
            actions.append(["remove", i])
        elif a == "replace_stmt":
            actions.append(["replace_stmt", i, f"R{j} = 0"])
        elif a == "replace_expr":
            # fault: a replacement whose text can not parse (the back-end's own rollback must take it back)
            actions.append(["replace_expr", i, f"R{j}"] + (["poison"] if rng.random() < 0.3 else []))
        elif a == "add":
            st = stmts[rng.randrange(len(stmts))]
            actions.append(["add", st.lineno - 1, st.col_offset, f"A{j} = 0"])
        else:  # move: the pattern of move_before_loop (addition elsewhere + removal)
            tgt = stmts[rng.randrange(len(stmts))]
            actions.append(["move", i, tgt.lineno - 1, tgt.col_offset])
    return {"engine": "e5", "kind": "direct", "x": src, "actions": actions}


def _ignored_lines(text: str) -> List[str]:
    return [l for l in text.split("\n") if e1_txn.IGNORE_RE.search(l)]


def _verbatim(lines: List[str], out: str) -> Optional[str]:
    """First ignored line that is not carried over (in order).  Trailing white
    space is not compared: trimming it is layout normalisation of the whole file
    (rmspace), not a rule rewriting the line."""
    out_lines = [l.rstrip() for l in out.split("\n")]
    pos = 0
    for l in lines:
        try:
            pos = out_lines.index(l.rstrip(), pos) + 1
        except ValueError:
            return l
    return None


def execute(case: Dict[str, Any]) -> Dict[str, Any]:
    main_mod = C.import_pyrefact()
    import pyrefact
    from pyrefact import core as pcore
    from pyrefact import processing

    log = C.EventLog(case.get("seed"))
    stats = C.Counter()
    violations: List[Dict[str, Any]] = []
    x = case["x"]
    kind = case["kind"]
    log.add("case", kind, C.sha(x)[:16])
    stats.inc("steps")
    stats.inc(f"kind.{kind}")
    sys.stdin = io.StringIO("")
    if kind == "skip":
        try:
            out = pyrefact.format_code(x, safe=case["safe"], keep_imports=case["keep_imports"], preserve=frozenset(case["preserve"]))
        except Exception as e:  # noqa: BLE001
            out = None
            violations.append({"class": "skip-file-raised", "detail": f"format_code raised {type(e).__name__} on a skip_file input", "props": ["C20"]})
        if out is not None and out != x:
            violations.append({"class": "skip-file-changed-by-format_code", "detail": "format_code changed a text carrying a skip_file comment", "props": ["C20"]})
        stats.inc("skip.format_code_checked")
        if case.get("stdin"):
            old_in, old_out = sys.stdin, sys.stdout
            sys.stdin, sys.stdout = io.StringIO(x), io.StringIO()
            try:
                argv = ["--from-stdin"] + (["--safe"] if case["safe"] else [])
                main_mod.main(argv)
                echoed = sys.stdout.getvalue()
            except BaseException as e:  # noqa: BLE001
                echoed = None
                violations.append({"class": "skip-file-stdin-raised", "detail": f"{type(e).__name__}: {e}", "props": ["C20"]})
            finally:
                sys.stdin, sys.stdout = old_in, old_out
            stats.inc("skip.stdin_checked")
            # print() appends one newline to every stdin-mode answer: framing, applied uniformly
            if echoed is not None and echoed not in (x, x + "\n"):
                violations.append({"class": "skip-file-changed-by-stdin-mode", "detail": "stdin mode did not echo a skip_file text unchanged", "props": ["C20"]})
    elif kind == "preserve":
        from . import e3_profiles as P

        before = P._defs(x)
        try:
            out = pyrefact.format_code(x, preserve=frozenset(case["preserve"]), keep_imports=case["keep_imports"])
        except Exception:  # noqa: BLE001
            out = None
            stats.inc("observed.format_code_raised")
        if out is not None and before:
            after = P._defs(out, loose=True)
            if out != x:
                stats.inc("preserve.inputs_that_changed")
            for name in case["preserve"]:
                if name not in before:
                    continue
                if "." in name and name.split(".")[0] not in case["preserve"]:
                    continue
                stats.inc("preserve.definitions_checked")
                if after.get(name) != before[name]:
                    violations.append({
                        "class": "preserved-definition-lost-within-file",
                        "detail": f"format_code(x, preserve={case['preserve']}): {before[name]} {name} was {'deleted or renamed' if name not in after else 'turned into a ' + after[name]}",
                        "props": ["C08"],
                    })
    elif kind == "ignore":
        lines = _ignored_lines(x)
        # call-site attribution for the known finding K2: processing.remove_nodes (the removal
        # half of the direct back-end) has no ignore test
        removed_ignored: List[str] = []
        real_remove = processing.remove_nodes

        def remove_nodes(source, nodes, root):
            nodes = list(nodes)
            for n in nodes:
                try:
                    if pcore.has_ignore_comment(source, pcore.get_charnos(n, source)):
                        removed_ignored.append(type(n).__name__)
                except Exception:  # noqa: BLE001
                    pass
            return real_remove(source, nodes, root)

        # ... and K3: fixes._fix_variable_names (the renaming back-end) splices text without one
        import pyrefact.fixes as pfixes

        renamed_ignored: List[str] = []
        real_rename = pfixes._fix_variable_names

        def _fix_variable_names(source, *a, **k):
            res = real_rename(source, *a, **k)
            lost = _verbatim(_ignored_lines(source), res)
            if lost is not None:
                renamed_ignored.append(lost)
            return res

        processing.remove_nodes = remove_nodes
        pfixes._fix_variable_names = _fix_variable_names
        try:
            out = pyrefact.format_code(x, safe=case["safe"], keep_imports=case["keep_imports"])
        except Exception:  # noqa: BLE001  (totality is C04, not judged here)
            out = None
            stats.inc("observed.format_code_raised")
        finally:
            processing.remove_nodes = real_remove
            pfixes._fix_variable_names = real_rename
        if out is not None:
            stats.inc("ignore.lines_checked", len(lines))
            if out != x:
                stats.inc("ignore.inputs_that_changed")
            missing = _verbatim(lines, out)
            if missing is not None:
                violations.append({
                    "class": "ignored-line-not-verbatim",
                    "detail": f"line {missing!r} carries an ignore comment but is not present verbatim in format_code's output",
                    "props": ["C20"],
                    "finding_key": (
                        "direct-backend:remove_nodes-applied-to-ignored-line" if removed_ignored
                        else "rename-backend:_fix_variable_names-rewrote-ignored-line" if renamed_ignored
                        else "e5:ignore:" + C.sha(x, case["safe"], case["keep_imports"])[:12]
                    ),
                })
            if removed_ignored:
                stats.inc("fault.remove_nodes_called_on_ignored_line")
            if renamed_ignored:
                stats.inc("fault.rename_touched_ignored_line")
    else:
        lines = _ignored_lines(x)
        root = pcore.parse(x)
        stmts, exprs = e1_txn.enumerate_nodes(root)
        additions, removals, replacements = [], [], {}
        touched_ignored = False
        ign_spans = e1_txn.ignored_line_spans(x)
        ls = e1_txn.line_starts(x)
        for a in case["actions"]:
            if a[0] in ("remove", "move"):
                node = stmts[a[1]]
                removals.append(node)
                if a[0] == "move":
                    import copy

                    new = copy.copy(node)
                    new.lineno, new.col_offset = a[2], a[3]
                    additions.append(new)
            elif a[0] == "replace_stmt":
                node = stmts[a[1]]
                new = ast.parse(a[2]).body[0]
                replacements[node] = ast.copy_location(new, node)
            elif a[0] == "reemit":
                node = stmts[a[1]]
                wrapped = ast.If(test=ast.Name(id=a[2], ctx=ast.Load()), body=[node], orelse=[])
                replacements[node] = ast.copy_location(wrapped, node)
            elif a[0] == "replace_expr":
                node = exprs[a[1]]
                if len(a) > 3 and a[3] == "poison":
                    replacements[node] = ast.copy_location(ast.Name(id=a[2] + " (]", ctx=ast.Load()), node)
                    stats.inc("fault.poison_replacement_direct_backend")
                else:
                    replacements[node] = ast.copy_location(ast.parse(a[2], mode="eval").body, node)
            else:
                new = ast.parse(a[3]).body[0]
                new.lineno, new.col_offset = a[1], a[2]
                additions.append(new)
        for node in list(removals) + list(replacements):
            s, e = e1_txn.plain_range(node, x, ls)
            if any(s < b and a_ < e for a_, b, _ in ign_spans):
                touched_ignored = True
        if touched_ignored:
            stats.inc("fault.edit_touches_ignored_line")
        try:
            out = processing.alter_code(x, root, additions=additions, removals=removals, replacements=replacements)
        except Exception as e:  # noqa: BLE001
            out = None
            stats.inc("observed.alter_code_raised." + type(e).__name__)
        if out is not None:
            stats.inc("direct.calls_checked")
            if out != x:
                stats.inc("direct.changed")
            # C03: replacements go through _replace_nodes, which takes an unparsable result back;
            # removals / additions have no such guard of their own and are not judged here
            if replacements and not removals and not additions:
                stats.inc("direct.replacement_only_calls_validity_checked")
                try:
                    ast.parse(out)
                except (SyntaxError, ValueError):
                    violations.append({
                        "class": "direct-backend-returned-invalid-text",
                        "detail": f"alter_code(replacements only) returned unparsable text for a parsable input (actions {case['actions']})",
                        "props": ["C03"],
                    })
            missing = _verbatim(lines, out)
            if missing is not None:
                removal_touches = False
                for node in removals:
                    s_, e_ = e1_txn.plain_range(node, x, ls)
                    if any(s_ < b and a_ < e_ for a_, b, _ in ign_spans):
                        removal_touches = True
                v = {
                    "class": "ignored-line-not-verbatim-direct-backend",
                    "detail": f"alter_code: line {missing!r} carries an ignore comment but is not present verbatim afterwards (actions {case['actions']})",
                    "props": ["C20"],
                }
                if removal_touches:
                    v["finding_key"] = "direct-backend:remove_nodes-applied-to-ignored-line"
                elif removals:
                    v["finding_key"] = "direct-backend:remove_nodes-disturbs-line-after-emptied-or-semicolon-body"
                violations.append(v)
    sig = f"{kind}|{C.sha(x)[:10]}"
    log.add("verdict", [v["class"] for v in violations])
    return {
        "violations": violations, "violation": violations[0] if violations else None,
        "digest": log.digest(), "stats": dict(stats),
        "signatures": [(sig + "|" + ",".join(case.get("preserve", []))[:40], (kind not in ("ignore", "preserve")) or stats.get("ignore.inputs_that_changed", 0) > 0 or stats.get("preserve.inputs_that_changed", 0) > 0)],
        "evaluations": 1, "log": log.lines() if violations else None,
    }


def run_seed(seed: int, **profile) -> Dict[str, Any]:
    rng = random.Random(seed)
    case = generate(rng, profile)
    case["seed"] = seed
    res = execute(case)
    res["seed"] = seed
    if res["violations"]:
        res["case"] = case
    if seed % 41 == 0 or res["violations"]:
        res["sample"] = {k: (v[:300] if isinstance(v, str) else v) for k, v in case.items()}
    return res


def shrink(case: Dict[str, Any], vclass: str, still_fails) -> Dict[str, Any]:
    if case["kind"] == "direct":
        acts = C.ddmin(case["actions"], lambda a: bool(a) and still_fails(dict(case, actions=a)), max_tests=30)
        if acts:
            case = dict(case, actions=acts)
    for key in ("safe", "keep_imports"):
        if case.get(key):
            c = dict(case)
            c[key] = False
            if still_fails(c):
                case = c
    return case


COMPONENTS = {
    "real": ["pyrefact.format_code, main.main --from-stdin, processing.alter_code / remove_nodes / _replace_nodes / _insert_nodes"],
    "stub": ["sys.stdin / sys.stdout recording streams (the stream seam of the stdin mode)"],
}


def props_of(v: Dict[str, Any]) -> List[str]:
    return v.get("props", ["C20"])

