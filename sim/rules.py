"""Harvest the rule list from the tree under test (not hard-coded): every
`<module>.<function>` that pyrefact.main references inside format_code /
_multi_run_fixes, resolved to the live callable."""
from __future__ import annotations

import ast
import inspect
import sys
from typing import Callable, Dict, Tuple

from . import core as C

_MODULES = (
    "abstractions", "fixes", "object_oriented", "performance", "performance_numpy",
    "performance_pandas", "symbolic_math", "tracing",
)


def harvest() -> Dict[str, Tuple[Callable, bool]]:
    """name -> (callable, takes_preserve)."""
    main_mod = C.import_pyrefact()
    import pyrefact

    tree = ast.parse(inspect.getsource(main_mod))
    out: Dict[str, Tuple[Callable, bool]] = {}
    for node in ast.walk(tree):
        if isinstance(node, ast.Attribute) and isinstance(node.value, ast.Name) and node.value.id in _MODULES:
            mod = sys.modules.get(f"pyrefact.{node.value.id}")
            fn = getattr(mod, node.attr, None)
            if not callable(fn):
                continue
            inner = getattr(fn, "_fix_func", fn)
            try:
                params = list(inspect.signature(inner).parameters)
            except (TypeError, ValueError):
                continue
            if not params or params[0] != "source":
                continue
            out[f"{node.value.id}.{node.attr}"] = (fn, "preserve" in params)
    return dict(sorted(out.items()))


def harvest_tail():
    """Names of the rules that format_code itself calls (outside _multi_run_fixes):
    the single-run head and tail stages (imports, line lengths, naming, ...)."""
    main_mod = C.import_pyrefact()
    tree = ast.parse(inspect.getsource(main_mod))
    names = []
    for fn in tree.body:
        if isinstance(fn, ast.FunctionDef) and fn.name == "format_code":
            for node in ast.walk(fn):
                if isinstance(node, ast.Attribute) and isinstance(node.value, ast.Name) and node.value.id in _MODULES:
                    names.append(f"{node.value.id}.{node.attr}")
    allr = harvest()
    return [n for n in dict.fromkeys(names) if n in allr]
